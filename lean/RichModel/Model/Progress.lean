/-
Model of rich/progress.py (accounting part): `Task`, `Progress.add_task / start_task / stop_task /
update / reset / advance / remove_task`, the derived values `percentage / finished / elapsed /
speed / time_remaining / remaining`, `Progress.track` and `_TrackThread`, and the thread-level step
machine (clock read outside the lock, atomic body under the lock).

Numbers.  Amounts (`total`, `completed`, advances) and clock readings are `Int`s counted in a fixed
unit: amounts in units of `1/A` step, times in *ticks* of `1/tps` second (`A`, `tps` powers of two
in the correspondence, so that every `+`, `-`, comparison of the real `float`/`int` values is exact
in double arithmetic).  Every statement of progress.py on amounts is additive, a comparison or a
ratio, hence invariant under the amount unit; only `time_remaining` (seconds) and
`speed_estimate_period` (seconds) see the time unit, through `Cfg.tps` and `Cfg.period`.
Ratios (`percentage`, `speed`) are returned as exact fractions `(numerator, denominator)`.

Clock.  `get_time` is an input: `clock : Nat → Int`, the k-th call returns `clock k`; the state
counts the calls made so far (`State.clk`) — so *how often* and *where* the code reads the clock is
part of the model (and of the correspondence).
-/
namespace RichModel.Progress

abbrev Clock := Nat → Int

/-- `ProgressSample(timestamp, completed)` -/
structure Sample where
  ts : Int
  amt : Int
deriving DecidableEq, Repr, Inhabited

/-- `rich.progress.Task`.  `description` is an opaque string id, `fields` the user dict in insertion
order (keys are opaque ids). -/
structure Task where
  id : Nat
  description : Nat
  total : Int
  completed : Int
  finishedTime : Option Int
  visible : Bool
  fields : List (Nat × Int)
  startTime : Option Int
  stopTime : Option Int
  /-- `_progress` deque, oldest first (no `maxlen`; pruned by hand in `update`/`advance`). -/
  samples : List Sample
deriving DecidableEq, Repr

structure Cfg where
  /-- `speed_estimate_period` in ticks. -/
  period : Int
  /-- the literal `1000` in `while len(_progress) > 1000`. -/
  maxLen : Nat
  /-- clock ticks per second. -/
  tps : Int
  /-- CODE VARIANT FLAG. `true`: `advance` and `reset` call `get_time()` *before* `with self._lock`
  (rich 9.10.0 as found); `false`: the read is the first statement under the lock (repair: fix b790bf0, what /repo contains now). -/
  clockOutside : Bool
  /-- `get_time()` calls one `refresh()` makes per visible task: 0 when the console is not a terminal
  (refresh does nothing), 5 for the default columns on a terminal (each of the 4 columns reads the clock
  in `ProgressColumn.__call__`, `BarColumn.render` once more). -/
  refreshReads : Nat
deriving Repr

inductive Err
  | keyError
deriving DecidableEq, Repr

/-! ## derived values (progress.py:472-531) -/

/-- `Task.started` -/
def Task.started (t : Task) : Bool := t.startTime.isSome

/-- `Task.finished` -/
def Task.finished (t : Task) : Bool := t.finishedTime.isSome

/-- `Task.remaining` -/
def Task.remaining (t : Task) : Int := t.total - t.completed

/-- `Task.elapsed`, with the clock: returns the value and the new number of clock calls
(`get_time()` is called only for a started, not stopped task). -/
def Task.elapsedC (clock : Clock) (t : Task) (k : Nat) : Option Int × Nat :=
  match t.startTime with
  | none => (none, k)
  | some s =>
    match t.stopTime with
    | some e => (some (e - s), k)
    | none => (some (clock k - s), k + 1)

/-- `Task.percentage` as an exact fraction `(n, d)`, `d > 0`:
`0.0 if not total else min(100.0, max(0.0, completed / total * 100.0))`. -/
def Task.percentage (t : Task) : Int × Int :=
  if t.total = 0 then (0, 1)
  else
    let n := if t.total < 0 then -(100 * t.completed) else 100 * t.completed
    let d := if t.total < 0 then -t.total else t.total
    if n < 0 then (0, 1) else if 100 * d < n then (100, 1) else (n, d)

def sumAmt : List Sample → Int
  | [] => 0
  | s :: r => s.amt + sumAmt r

/-- `Task.speed` as the raw fraction `(Σ completed of all samples but the first, last.ts - first.ts)`
in amount-units per tick; `none` where the code returns `None`.  The denominator is whatever the
deque holds — it is negative when the samples are out of timestamp order. -/
def Task.speed (t : Task) : Option (Int × Int) :=
  match t.startTime with
  | none => none
  | some _ =>
    match t.samples with
    | [] => none
    | s0 :: rest =>
      let d := (rest.getLast?.getD s0).ts - s0.ts
      if d = 0 then none else some (sumAmt rest, d)

/-- `math.ceil(a / b)` for `b > 0` (Lean's `/` on `Int` is floor division for a positive divisor). -/
def ceilDiv (a b : Int) : Int := -((-a) / b)

/-- `Task.time_remaining` in seconds: `0.0` if finished, `None` if `not speed`, else
`ceil(remaining / speed)`; with `speed = n/d` amount-units per tick this is
`ceil(remaining * d / (n * tps))`. -/
def Task.timeRemaining (cfg : Cfg) (t : Task) : Option Int :=
  if t.finishedTime.isSome then some 0
  else
    match t.speed with
    | none => none
    | some (n, d) =>
      if n = 0 then none
      else
        let num := t.remaining * d
        let den := n * cfg.tps
        some (if 0 < den then ceilDiv num den else ceilDiv (-num) (-den))

/-! ## sample pruning (progress.py:825-829 / 888-892) -/

/-- `while _progress and _progress[0].timestamp < old_sample_time: popleft()` -/
def dropOld (old : Int) : List Sample → List Sample
  | [] => []
  | s :: r => if s.ts < old then dropOld old r else s :: r

/-- `while len(_progress) > 1000: popleft()` -/
def dropExcess (maxLen : Nat) (l : List Sample) : List Sample := l.drop (l.length - maxLen)

def prune (cfg : Cfg) (now : Int) (l : List Sample) : List Sample :=
  dropExcess cfg.maxLen (dropOld (now - cfg.period) l)

/-! ## the bodies executed under `with self._lock`, on the task they address -/

/-- `if task.completed >= task.total and task.finished_time is None: task.finished_time = task.elapsed`
(`task.elapsed` may call `get_time()` a second time). -/
def Task.finishCheck (clock : Clock) (t : Task) (k : Nat) : Task × Nat :=
  if t.total ≤ t.completed ∧ t.finishedTime = none then
    ({ t with finishedTime := (t.elapsedC clock k).1 }, (t.elapsedC clock k).2)
  else (t, k)

/-- `Progress.advance` under the lock; `now` is `current_time`. The sample is appended
unconditionally (also for zero and negative amounts). -/
def Task.advanceBody (cfg : Cfg) (clock : Clock) (now amt : Int) (t : Task) (k : Nat) : Task × Nat :=
  let c1 := t.completed + amt
  let upd := c1 - t.completed
  Task.finishCheck clock
    { t with completed := c1, samples := prune cfg now t.samples ++ [⟨now, upd⟩] } k

structure UpdArgs where
  total : Option Int
  completed : Option Int
  advance : Option Int
  visible : Option Bool
  refresh : Bool
  description : Option Nat := none
  /-- `**fields`, merged with `task.fields.update(fields)` -/
  fields : List (Nat × Int) := []
deriving Repr, DecidableEq

/-- `d[k] = v` on an insertion-ordered dict -/
def dictSet (k : Nat) (v : Int) : List (Nat × Int) → List (Nat × Int)
  | [] => [(k, v)]
  | kv :: r => if kv.1 = k then (k, v) :: r else kv :: dictSet k v r

/-- `d.update(f)` -/
def dictUpdate (d f : List (Nat × Int)) : List (Nat × Int) :=
  f.foldl (fun d kv => dictSet kv.1 kv.2 d) d

/-- number of visible tasks (rows `refresh()` renders) -/
def visCount (l : List Task) : Nat := (l.filter (fun t => t.visible)).length

/-- clock counter after one `refresh()` that renders `others` other visible tasks and this one -/
def refreshK (cfg : Cfg) (others : Nat) (t : Task) (k : Nat) : Nat :=
  k + cfg.refreshReads * (others + if t.visible then 1 else 0)

/-- the assignments of `Progress.update` (progress.py:804-815) -/
def Task.applyUpd (u : UpdArgs) (t : Task) : Task :=
  let t1 := match u.total with
    | some x => { t with total := x, samples := [], finishedTime := none }
    | none => t
  let t2 := match u.advance with
    | some a => { t1 with completed := t1.completed + a }
    | none => t1
  let t3 := match u.completed with
    | some c => { t2 with completed := c }
    | none => t2
  let t4 := match u.description with
    | some d => { t3 with description := d }
    | none => t3
  let t5 := match u.visible with
    | some v => { t4 with visible := v }
    | none => t4
  { t5 with fields := dictUpdate t5.fields u.fields }

/-- `Progress.update` under the lock: `refresh()` (if asked for) comes *before* the clock read; the
clock is read inside the lock; a sample is appended only when `update_completed > 0`. -/
def Task.updateBody (cfg : Cfg) (clock : Clock) (u : UpdArgs) (others : Nat) (t : Task) (k : Nat) : Task × Nat :=
  let t' := t.applyUpd u
  let upd := t'.completed - t.completed
  let k0 := if u.refresh then refreshK cfg others t' k else k
  let now := clock k0
  let s := prune cfg now t'.samples
  Task.finishCheck clock { t' with samples := if 0 < upd then s ++ [⟨now, upd⟩] else s } (k0 + 1)

structure ResetArgs where
  start : Bool
  total : Option Int
  completed : Int
  visible : Option Bool
  description : Option Nat := none
  /-- `**fields`: *replaces* `task.fields` when non-empty -/
  fields : List (Nat × Int) := []
deriving Repr, DecidableEq

/-- `Progress.reset` under the lock. Note: `stop_time` is *not* cleared. -/
def Task.resetBody (now : Int) (r : ResetArgs) (t : Task) : Task :=
  { t with
    samples := []
    finishedTime := none
    startTime := if r.start then some now else none
    total := r.total.getD t.total
    completed := r.completed
    visible := r.visible.getD t.visible
    fields := if r.fields.isEmpty then t.fields else r.fields
    description := r.description.getD t.description }

structure AddArgs where
  start : Bool
  total : Int
  completed : Int
  visible : Bool
  description : Nat := 0
  fields : List (Nat × Int) := []
deriving Repr, DecidableEq

/-! ## Progress state and operations -/

structure State where
  /-- `_tasks` dict in insertion order -/
  tasks : List Task
  /-- `_task_index` -/
  nextId : Nat
  /-- number of `get_time()` calls made so far -/
  clk : Nat
  /-- `Progress._started` (the live display is on) -/
  started : Bool := false
deriving Repr, DecidableEq

def State.empty : State := { tasks := [], nextId := 0, clk := 0 }

inductive Op
  | addTask (a : AddArgs)
  | startTask (id : Nat)
  | stopTask (id : Nat)
  | update (id : Nat) (u : UpdArgs)
  | reset (id : Nat) (r : ResetArgs)
  | advance (id : Nat) (amt : Int)
  | removeTask (id : Nat)
  /-- `Progress.refresh()` (also what `_RefreshThread.run` calls after every wait) -/
  | refresh
  /-- `Progress.start()` -/
  | start
  /-- `Progress.stop()` -/
  | stop
deriving Repr, DecidableEq

def lookup (l : List Task) (id : Nat) : Option Task := l.find? (fun t => t.id == id)

def setTask (id : Nat) (t' : Task) (l : List Task) : List Task :=
  l.map (fun t => if t.id = id then t' else t)

/-- the task id an operation addresses (`self._tasks[task_id]`), if it addresses one -/
def Op.target : Op → Option Nat
  | .addTask .. => none
  | .startTask id => some id
  | .stopTask id => some id
  | .update id _ => some id
  | .reset id .. => some id
  | .advance id _ => some id
  | .removeTask id => some id
  | .refresh => none
  | .start => none
  | .stop => none

/-- Does the operation call `get_time()` before `with self._lock`? -/
def Op.readsOutside (cfg : Cfg) : Op → Bool
  | .advance .. => cfg.clockOutside
  | .reset .. => cfg.clockOutside
  | _ => false

/-- `current_time` of `advance`/`reset`: the reading taken before the lock (`pre`), or a fresh
reading taken as the first statement under the lock. -/
def nowOf (clock : Clock) (pre : Option Int) (k : Nat) : Int × Nat :=
  match pre with
  | some v => (v, k)
  | none => (clock k, k + 1)

/-- effect of an operation on the task it addresses, with the clock counter; `others` is the number
of *other* visible tasks (what a `refresh()` inside the operation renders besides this one) -/
def taskEffect (cfg : Cfg) (clock : Clock) (op : Op) (pre : Option Int) (others : Nat) (t : Task) (k : Nat) : Task × Nat :=
  match op with
  | .startTask _ =>
    match t.startTime with
    | none => ({ t with startTime := some (clock k) }, k + 1)
    | some _ => (t, k)
  | .stopTask _ =>
    ({ t with startTime := some (t.startTime.getD (clock k)), stopTime := some (clock k) }, k + 1)
  | .update _ u => t.updateBody cfg clock u others k
  | .reset _ r =>
    (t.resetBody (nowOf clock pre k).1 r,
     refreshK cfg others (t.resetBody (nowOf clock pre k).1 r) (nowOf clock pre k).2)
  | .advance _ amt => t.advanceBody cfg clock (nowOf clock pre k).1 amt (nowOf clock pre k).2
  | _ => (t, k)

/-- clock counter after an operation that raised `KeyError`: `advance`/`reset` have read the clock
before the failing `self._tasks[task_id]`, the others have not. -/
def clkOnError (clock : Clock) (op : Op) (pre : Option Int) (k : Nat) : Nat :=
  match op with
  | .advance .. => (nowOf clock pre k).2
  | .reset .. => (nowOf clock pre k).2
  | _ => k

structure Res where
  st : State
  err : Option Err
deriving Repr, DecidableEq

/-- The part of an operation that runs under the lock (atomic). `pre` is the clock reading the
calling thread took before acquiring the lock, when the code does that. -/
def body (cfg : Cfg) (clock : Clock) (op : Op) (pre : Option Int) (st : State) : Res :=
  match op with
  | .addTask a =>
    let t : Task :=
      { id := st.nextId, description := a.description, total := a.total, completed := a.completed,
        finishedTime := none, visible := a.visible, fields := a.fields,
        startTime := if a.start then some (clock st.clk) else none,
        stopTime := none, samples := [] }
    let k1 := if a.start then st.clk + 1 else st.clk
    ⟨{ tasks := st.tasks ++ [t], nextId := st.nextId + 1,
       clk := k1 + cfg.refreshReads * visCount (st.tasks ++ [t]), started := st.started }, none⟩
  | .refresh => ⟨{ st with clk := st.clk + cfg.refreshReads * visCount st.tasks }, none⟩
  | .start =>
    if st.started then ⟨st, none⟩
    else ⟨{ st with started := true, clk := st.clk + cfg.refreshReads * visCount st.tasks }, none⟩
  | .stop =>
    if st.started then ⟨{ st with started := false, clk := st.clk + cfg.refreshReads * visCount st.tasks }, none⟩
    else ⟨st, none⟩
  | .removeTask id =>
    match lookup st.tasks id with
    | none => ⟨st, some .keyError⟩
    | some _ => ⟨{ st with tasks := st.tasks.filter (fun t => t.id != id) }, none⟩
  | op =>
    match op.target with
    | none => ⟨st, none⟩
    | some id =>
      match lookup st.tasks id with
      | none => ⟨{ st with clk := clkOnError clock op pre st.clk }, some .keyError⟩
      | some t =>
        let r := taskEffect cfg clock op pre (visCount (st.tasks.filter (fun x => x.id != id))) t st.clk
        ⟨{ st with tasks := setTask id r.1 st.tasks, clk := r.2 }, none⟩

/-- the read before the lock, if the operation has one -/
def preRead (cfg : Cfg) (clock : Clock) (op : Op) (st : State) : Option Int × State :=
  if op.readsOutside cfg then (some (clock st.clk), { st with clk := st.clk + 1 }) else (none, st)

/-- one whole operation, executed by a single thread with nothing in between -/
def step (cfg : Cfg) (clock : Clock) (op : Op) (st : State) : Res :=
  body cfg clock op (preRead cfg clock op st).1 (preRead cfg clock op st).2

/-- a sequential history; an operation that raises leaves the tasks unchanged -/
def run (cfg : Cfg) (clock : Clock) : List Op → State → State
  | [], st => st
  | op :: ops, st => run cfg clock ops (step cfg clock op st).st

/-! ## `Progress.track` (progress.py:699-745) and `_TrackThread` (53-85) -/

/-- the operation that announces the total: a new task, or `update(task_id, total=…)` -/
def trackOpen (taskId : Option Nat) (total : Int) : Op :=
  match taskId with
  | none => .addTask ⟨true, total, 0, true, 0, []⟩
  | some id => .update id ⟨some total, none, none, none, false, none, []⟩

/-- the id `track` works on (given the state in which it is called) -/
def trackId (taskId : Option Nat) (st : State) : Nat := taskId.getD st.nextId

/-- `auto_refresh = False`: one `advance(task_id, 1)` per element, after the element was yielded.
Returns the yielded elements and the operations issued. -/
def trackSeq {α : Type} (taskId : Option Nat) (total : Int) (xs : List α) (st : State) : List α × List Op :=
  (xs, trackOpen taskId total :: xs.map (fun _ => Op.advance (trackId taskId st) 1))

/-- `_TrackThread.run`: on each wake-up the thread sees the counter value `c`; if it differs from
the last one seen it advances by the difference. -/
def trackWakes (id : Nat) : Int → List Int → List Op
  | _, [] => []
  | last, c :: cs =>
    if last ≠ c then Op.advance id (c - last) :: trackWakes id c cs else trackWakes id c cs

/-- `auto_refresh = True`: the wake-ups in `seen` (any values), then the final
`update(task_id, completed=n, refresh=True)` where `n` is the number of elements consumed. -/
def trackThread {α : Type} (taskId : Option Nat) (total : Int) (xs : List α) (seen : List Int) (st : State) :
    List α × List Op :=
  (xs, trackOpen taskId total :: trackWakes (trackId taskId st) 0 seen ++
        [Op.update (trackId taskId st) ⟨none, some xs.length, none, none, true, none, []⟩])

/-- `_RefreshThread.run`: `while not done.wait(period): progress.refresh()` — `k` wake-ups -/
def refreshThreadProg (k : Nat) : List Op := List.replicate k Op.refresh

/-- operations of the live display: they render, they never touch a task -/
def Op.isDisplay : Op → Bool
  | .refresh => true
  | .start => true
  | .stop => true
  | _ => false

/-! ## threads: every operation is `[read clock]` then `atomic body` -/

structure Thread where
  prog : List Op
  /-- `some v`: the head operation has already read the clock (value `v`) and waits for the lock -/
  pending : Option Int
deriving Repr, DecidableEq

structure Conf where
  st : State
  threads : List Thread
deriving Repr, DecidableEq

inductive Event
  | read (tid : Nat)
  | commit (tid : Nat) (op : Op) (pre : Option Int) (err : Option Err)
deriving Repr, DecidableEq

def setThread (i : Nat) (th : Thread) (l : List Thread) : List Thread := l.set i th

/-- thread `i` performs its next step (a clock read outside the lock, or an atomic body);
`none` if it has nothing left to do. -/
def stepThread (cfg : Cfg) (clock : Clock) (i : Nat) (c : Conf) : Option (Conf × Event) :=
  match c.threads[i]? with
  | none => none
  | some th =>
    match th.prog with
    | [] => none
    | op :: rest =>
      if op.readsOutside cfg && th.pending.isNone then
        some (⟨{ c.st with clk := c.st.clk + 1 },
               setThread i { th with pending := some (clock c.st.clk) } c.threads⟩, .read i)
      else
        let r := body cfg clock op th.pending c.st
        some (⟨r.st, setThread i { prog := rest, pending := none } c.threads⟩,
              .commit i op th.pending r.err)

/-- run a schedule (a list of thread indices); steps of finished threads are skipped -/
def runSched (cfg : Cfg) (clock : Clock) : List Nat → Conf → Conf × List Event
  | [], c => (c, [])
  | i :: is, c =>
    match stepThread cfg clock i c with
    | none => runSched cfg clock is c
    | some (c', e) => let r := runSched cfg clock is c'; (r.1, e :: r.2)

/-- the operations of an event log in lock-acquisition order, with the reading each one carried -/
def commits : List Event → List (Op × Option Int)
  | [] => []
  | .read _ :: es => commits es
  | .commit _ op pre _ :: es => (op, pre) :: commits es

/-- the bodies in lock-acquisition order, each with the clock reading its thread took -/
def runBodies (cfg : Cfg) (clock : Clock) : List (Op × Option Int) → State → State
  | [], st => st
  | (op, pre) :: r, st => runBodies cfg clock r (body cfg clock op pre st).st

end RichModel.Progress
