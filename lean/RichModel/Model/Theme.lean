/-
Model of rich/theme.py (`Theme`, `ThemeStack`) and of the theme part of rich/console.py
(`Console.push_theme / pop_theme / use_theme`, `ThemeContext.__enter__/__exit__`,
`Console.get_style`).  Import-free.

Styles are opaque values of a type `σ` (the driver instantiates σ := Nat, the id of a
`Style.__eq__` class).  `Style.parse` is a parameter: a partial function from definitions to
styles (`Parse σ`); another property (C06) owns the Style model.

A Python `dict` with `str` keys is an insertion-ordered association list with unique keys
(`Dict σ`); `dget` / `dset` / `dupdate` are `dict.get`, `d[k] = v`, `dict.update` / `{**a, **b}`.
-/
namespace RichModel.Theme

abbrev Name := List Char
abbrev Dict (σ : Type) := List (Name × σ)

variable {σ : Type}

/-- `dict.get(name)` (→ `None` when absent). -/
def dget : Dict σ → Name → Option σ
  | [], _ => none
  | (k, v) :: r, n => if k = n then some v else dget r n

/-- `d[name] = style`: an existing key keeps its position, a new key is appended. -/
def dset : Dict σ → Name → σ → Dict σ
  | [], n, s => [(n, s)]
  | (k, v) :: r, n, s => if k = n then (k, s) :: r else (k, v) :: dset r n s

/-- `d.update(e)` on a copy of `d`, also `{**d, **e}`. -/
def dupdate (d e : Dict σ) : Dict σ := e.foldl (fun acc p => dset acc p.1 p.2) d

/-- Keys of a dict (Python dicts have unique keys: `WFD`). -/
def keys (d : Dict σ) : List Name := d.map Prod.fst

def WFD (d : Dict σ) : Prop := (keys d).Nodup

/-! ## `Style.parse` as a parameter -/

/-- What can come out of `Style.parse` other than a style. -/
inductive PErr where
  | syntaxError   -- errors.StyleSyntaxError
  | other    -- any other exception escaping Style.parse (propagated unchanged by the callers)
deriving Repr, BEq, DecidableEq

abbrev Parse (σ : Type) := Name → Except PErr σ

/-- `StyleType = Union[str, Style]`. -/
inductive SV (σ : Type) where
  | style (s : σ)
  | str (d : Name)
deriving Repr, BEq, DecidableEq

/-! ## `Theme` -/

structure Theme (σ : Type) where
  styles : Dict σ
deriving Repr, BEq, DecidableEq

/-- The dict comprehension `{name: style if isinstance(style, Style) else Style.parse(style) for …}`:
values are evaluated in order, the first exception escapes. -/
def evalItems (parse : Parse σ) : List (Name × SV σ) → Except PErr (List (Name × σ))
  | [] => .ok []
  | (n, v) :: r =>
    match (match v with | .style s => Except.ok s | .str d => parse d) with
    | .error e => .error e
    | .ok s =>
      match evalItems parse r with
      | .error e => .error e
      | .ok rest => .ok ((n, s) :: rest)

/-- `Theme.__init__(styles, inherit)` (theme.py:18-26).  `defaults` is `DEFAULT_STYLES`. -/
def Theme.new (defaults : Dict σ) (parse : Parse σ) (styles : Option (List (Name × SV σ)))
    (inherit : Bool) : Except PErr (Theme σ) :=
  let base : Dict σ := if inherit then defaults else []
  match styles with
  | none => .ok ⟨base⟩
  | some items =>
    match evalItems parse items with
    | .error e => .error e
    | .ok parsed => .ok ⟨dupdate base (dupdate [] parsed)⟩

/-! ## `ThemeStack` -/

inductive Err where
  | themeStackError   -- ThemeStackError("Unable to pop base theme")
  | indexError        -- `_entries[-1]` / `_entries.pop()` on an empty list (unreachable from `Stack.init`)
  | userError         -- an exception raised by the body of a `with console.use_theme(...)` block
deriving Repr, BEq, DecidableEq

/-- `ThemeStack`: the list `_entries` (oldest first, as in Python) and the dict the bound method
`self.get` currently points at (it is rebound by hand after every push and pop). -/
structure Stack (σ : Type) where
  entries : List (Dict σ)
  bound : Dict σ
deriving Repr, BEq, DecidableEq

/-- `ThemeStack.__init__(theme)` (theme.py:78-80). -/
def Stack.init (theme : Theme σ) : Stack σ := ⟨[theme.styles], theme.styles⟩

/-- `ThemeStack.push_theme(theme, inherit)` (theme.py:82-94). -/
def pushTheme (st : Stack σ) (theme : Theme σ) (inherit : Bool) : Except Err (Stack σ) :=
  if inherit then
    match st.entries.getLast? with
    | none => .error .indexError
    | some top =>
      let styles := dupdate top theme.styles
      .ok ⟨st.entries ++ [styles], styles⟩
  else
    let styles := theme.styles
    .ok ⟨st.entries ++ [styles], styles⟩

/-- `ThemeStack.pop_theme()` (theme.py:96-101). -/
def popTheme (st : Stack σ) : Except Err (Stack σ) :=
  if st.entries.length = 1 then .error .themeStackError
  else if st.entries.isEmpty then .error .indexError          -- `[].pop()`
  else
    let entries := st.entries.dropLast
    match entries.getLast? with
    | none => .error .indexError
    | some top => .ok ⟨entries, top⟩

/-- `ThemeStack.get` = the bound `dict.get`. -/
def Stack.get (st : Stack σ) (n : Name) : Option σ := dget st.bound n

/-! ## `Console.push_theme / pop_theme / use_theme`, `ThemeContext` -/

/-- `ThemeContext.__enter__` (console.py:210-212).  `ignoreInherit = true` is the code as found
(`self.console.push_theme(self.theme)`, the `inherit` argument of `use_theme` is dropped);
`false` is the repaired code (`push_theme(self.theme, inherit=self.inherit)`). -/
def ctxEnter (ignoreInherit : Bool) (st : Stack σ) (theme : Theme σ) (inherit : Bool) :
    Except Err (Stack σ) :=
  pushTheme st theme (if ignoreInherit then true else inherit)

/-- `ThemeContext.__exit__` (console.py:214-215): pops whatever the exit reason; returns `None`,
so an exception raised by the body keeps propagating. -/
def ctxExit (st : Stack σ) : Except Err (Stack σ) := popTheme st

/-- Operations of a history on one console (one thread: the stack is thread-local). -/
inductive Op (σ : Type) where
  | push (theme : Theme σ) (inherit : Bool)          -- console.push_theme(theme, inherit=…)
  | pop                                              -- console.pop_theme()
  | raise                                            -- user code raises
  | use (theme : Theme σ) (inherit : Bool) (body : List (Op σ))   -- with console.use_theme(…): body

inductive Outcome where
  | normal
  | raised (e : Err)
deriving Repr, BEq, DecidableEq

mutual
/-- Run one operation; the state is returned together with how the statement ended. -/
def runOp (f : Bool) : Op σ → Stack σ → Stack σ × Outcome
  | .push t i, st =>
    match pushTheme st t i with
    | .ok st' => (st', .normal)
    | .error e => (st, .raised e)
  | .pop, st =>
    match popTheme st with
    | .ok st' => (st', .normal)
    | .error e => (st, .raised e)
  | .raise, st => (st, .raised .userError)
  | .use t i body, st =>
    match ctxEnter f st t i with
    | .error e => (st, .raised e)                    -- `__enter__` raised: `__exit__` is not called
    | .ok st1 =>
      match runOps f body st1 with
      | (st2, out) =>
        match ctxExit st2 with
        | .ok st3 => (st3, out)                      -- body's exception (if any) propagates
        | .error e => (st2, .raised e)               -- `__exit__` itself raised
/-- Run a statement list: stops at the first statement that raises. -/
def runOps (f : Bool) : List (Op σ) → Stack σ → Stack σ × Outcome
  | [], st => (st, .normal)
  | op :: rest, st =>
    match runOp f op st with
    | (st', .normal) => runOps f rest st'
    | r => r
end

mutual
/-- As `runOp`, also listing the state after every executed statement (for the driver:
inside a `use` block: after `__enter__`, after each body statement, after the block). -/
def traceOp (f : Bool) : Op σ → Stack σ → Stack σ × Outcome × List (Stack σ)
  | .push t i, st =>
    match pushTheme st t i with
    | .ok st' => (st', .normal, [st'])
    | .error e => (st, .raised e, [st])
  | .pop, st =>
    match popTheme st with
    | .ok st' => (st', .normal, [st'])
    | .error e => (st, .raised e, [st])
  | .raise, st => (st, .raised .userError, [st])
  | .use t i body, st =>
    match ctxEnter f st t i with
    | .error e => (st, .raised e, [st])
    | .ok st1 =>
      match traceOps f body st1 with
      | (st2, out, tr) =>
        match ctxExit st2 with
        | .ok st3 => (st3, out, st1 :: tr ++ [st3])
        | .error e => (st2, .raised e, st1 :: tr ++ [st2])
def traceOps (f : Bool) : List (Op σ) → Stack σ → Stack σ × Outcome × List (Stack σ)
  | [], st => (st, .normal, [])
  | op :: rest, st =>
    match traceOp f op st with
    | (st', .normal, tr) =>
      match traceOps f rest st' with
      | (st'', out, tr') => (st'', out, tr ++ tr')
    | r => r
end

/-! ## `Console.get_style` -/

inductive GErr where
  | missingStyle   -- errors.MissingStyle
  | other          -- a non-StyleSyntaxError exception out of Style.parse
deriving Repr, BEq, DecidableEq

/-- `Union[str, Style]` argument of `get_style`. -/
abbrev NS := SV

/-- `self._theme_stack.get(name)`, then `Style.parse(name)` when that is `None`
(console.py:1003-1006; `style.copy() if style.link else style` returns an equal style). -/
def resolve (parse : Parse σ) (st : Stack σ) (n : Name) : Except PErr σ :=
  match st.get n with
  | some s => .ok s
  | none => parse n

/-- `Console.get_style(name)` without `default`. -/
def getStyle1 (parse : Parse σ) (st : Stack σ) : NS σ → Except GErr σ
  | .style s => .ok s
  | .str n =>
    match resolve parse st n with
    | .ok s => .ok s
    | .error .syntaxError => .error .missingStyle
    | .error .other => .error .other

/-- `Console.get_style(name, default=…)` (console.py:984-1010). -/
def getStyle (parse : Parse σ) (st : Stack σ) (name : NS σ) (default : Option (NS σ)) : Except GErr σ :=
  match name with
  | .style s => .ok s
  | .str n =>
    match resolve parse st n with
    | .ok s => .ok s
    | .error .other => .error .other
    | .error .syntaxError =>
      match default with
      | none => .error .missingStyle
      | some d => getStyle1 parse st d            -- `return self.get_style(default)`

/-! ## `Theme.config` -/

/-- Python `str.__lt__`: lexicographic by code point. -/
def nameLt : Name → Name → Bool
  | [], [] => false
  | [], _ :: _ => true
  | _ :: _, [] => false
  | a :: as, b :: bs => if a.toNat < b.toNat then true else if b.toNat < a.toNat then false else nameLt as bs

/-- insertion into a list sorted by name (stable: goes after equal keys). -/
def insertSorted (p : Name × σ) : Dict σ → Dict σ
  | [] => [p]
  | q :: r => if nameLt p.1 q.1 then p :: q :: r else q :: insertSorted p r

/-- `sorted(self.styles.items())` (keys are unique, so the style never decides). -/
def sortItems (d : Dict σ) : Dict σ := d.foldr insertSorted []

/-- `"\n".join(lines)` -/
def joinNL : List (List Char) → List Char
  | [] => []
  | [l] => l
  | l :: r => l ++ '\n' :: joinNL r

/-- one `f"{name} = {style}"` line -/
def cfgLine (str : σ → List Char) (p : Name × σ) : List Char := p.1 ++ [' ', '=', ' '] ++ str p.2

def sectHeader : List Char := ['[', 's', 't', 'y', 'l', 'e', 's', ']']

/-- `Theme.config` (theme.py:28-34); `str` is `Style.__str__`. -/
def Theme.config (str : σ → List Char) (t : Theme σ) : List Char :=
  sectHeader ++ '\n' :: joinNL ((sortItems t.styles).map (cfgLine str))

end RichModel.Theme
