import RichModel.Model.Text
/-!
The `_text` fragment list of `rich.text.Text` made explicit (deepening round 4).  `Model/Text.lean` abstracts the
fragments to their concatenation (`plain`); here the list is modelled as the code keeps it — `append*` push a fragment,
the `plain` getter joins the fragments and resets the list to one fragment, the setter / `right_crop` / `copy` store
one fragment — and `FText.abs` maps a fragment state to the abstract `Text`.  Every other slot (`_length`, `_spans`,
style, …) is carried in `core` and updated by the abstract model's own operation on `abs`, so the refinement theorem
(`Lemmas/TextFrag.lean`) is exactly the statement that the fragment bookkeeping and the concatenation agree.
-/
namespace RichModel
namespace Text
variable {σ : Type}

/-- a `Text` with its `_text` list; `core.plain` is not looked at: the string is `"".join(frags)` -/
structure FText (σ : Type) where
  frags : List (List Char)
  core : Text σ

namespace FText

/-- the abstraction: the `Text` of `Model/Text.lean` this fragment state stands for -/
def abs (ft : FText σ) : Text σ := { ft.core with plain := ft.frags.flatten }

/-- `Text(text, style)`: `self._text = [strip_control_codes(text)]` -/
def new (v : Variant) (text : List Char) (style : σ) : FText σ :=
  { frags := [stripControl text], core := Text.new v text style }

/-- a text whose `_text` is exactly `frs` (built by `Text(frs[0])` followed by `append(f)` for the others) -/
def ofFrags (v : Variant) (frs : List (List Char)) (style : σ) : FText σ :=
  { frags := frs, core := Text.new v frs.flatten style }

/-- the `plain` getter (text.py:310-314): `if len(self._text) != 1: self._text[:] = ["".join(self._text)]` -/
def normalise (ft : FText σ) : FText σ :=
  if ft.frags.length != 1 then { ft with frags := [ft.frags.flatten] } else ft

inductive FOp (σ : Type) where
  | getPlain                                              -- read `t.plain`
  | setPlain (s : List Char)                              -- `t.plain = s`
  | appendStr (s : List Char) (style : Option σ)          -- `t.append(s, style)`
  | appendText (u : FText σ)                              -- `t.append_text(u)`
  | appendT (u : FText σ)                                 -- `t.append(u)`
  | appendTokens (toks : List (List Char × Option σ))     -- `t.append_tokens(toks)`
  | rightCrop (n : Int)                                   -- `t.right_crop(n)` (the code in /repo now)
  | copy                                                  -- `t = t.copy()`
  | join (lines : List (FText σ))                         -- `t = t.join(lines)` (the receiver is the separator)

/-- `iter_text()` of `join` on any carrier: the lines, with the separator between them when its string is not empty -/
def jseq {α : Type} (sepEmpty : Bool) (sep : α) : List α → List α
  | [] => []
  | [x] => [x]
  | x :: y :: rest => if sepEmpty then x :: jseq sepEmpty sep (y :: rest) else x :: sep :: jseq sepEmpty sep (y :: rest)

/-- one operation on the fragment state: the `_text` list as the code updates it; the other slots as the abstract
model updates them -/
def step (ft : FText σ) : FOp σ → FText σ
  | .getPlain => ft.normalise
  | .setPlain s =>
    -- `if new_text != self.plain:` (the getter normalises first) `self._text[:] = [new_text]`
    let ft1 := ft.normalise
    { frags := if s != ft1.frags.flatten then [s] else ft1.frags, core := ft.abs.setPlain s }
  | .appendStr s st =>
    -- `if len(text): text = strip_control_codes(text); self._text.append(text)`
    { frags := if s.length != 0 then ft.frags ++ [stripControl s] else ft.frags, core := ft.abs.appendStr s st }
  | .appendText u =>
    -- `self._text.append(text.plain)`
    { frags := ft.frags ++ [u.frags.flatten], core := ft.abs.appendText u.abs }
  | .appendT u =>
    -- `if len(text): … self._text.append(text.plain)`
    { frags := if u.core.length != 0 then ft.frags ++ [u.frags.flatten] else ft.frags, core := ft.abs.appendT u.abs }
  | .appendTokens toks =>
    -- `for content, style in tokens: append_text(content)`
    { frags := ft.frags ++ toks.map (·.1), core := ft.abs.appendTokens toks }
  | .rightCrop n =>
    -- `max_offset = max(0, len(self.plain) - amount); self._text = [self.plain[:max_offset]]`
    { frags := [Py.sliceTo ft.frags.flatten (max 0 ((ft.frags.flatten.length : Int) - n))],
      core := ft.abs.rightCrop ⟨false, false, false, false, false, false⟩ n }
  | .copy =>
    -- `Text(self.plain, …)`: the constructor strips control codes and stores one fragment
    { frags := [stripControl ft.frags.flatten], core := ft.abs.copy ⟨false, false, false, false, false, false⟩ }
  | .join lines =>
    -- `new_text = self.blank_copy()` (`_text == [""]`); `if self.plain:` normalises the separator; then
    -- `for text in iter_text(): new_text._text.extend(text._text)`: the operands' fragments are taken as they are
    let sep := ft.normalise
    { frags := [[]] ++ (jseq sep.frags.flatten.isEmpty sep lines).flatMap (·.frags),
      core := ft.abs.join ⟨false, false, false, false, false, false⟩ (lines.map abs) }

def run (ft : FText σ) (ops : List (FOp σ)) : FText σ := ops.foldl step ft

/-- the `_text` list after every operation of a history (what the driver answers) -/
def trace (ft : FText σ) : List (FOp σ) → List (List (List Char))
  | [] => []
  | op :: rest => (ft.step op).frags :: trace (ft.step op) rest

end FText
end Text
end RichModel
