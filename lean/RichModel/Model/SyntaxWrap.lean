import RichModel.Model.Syntax
import RichModel.Model.Wrap
/-
Model of the word-wrap branches of `Syntax.__rich_console__`, row by row, by handing each line to the model of
`Text.wrap` built for properties C02/C05 (`Model/Wrap.lean`, `Model/Text.lean`, imported read-only):

* numbered: `console.render_lines(line, render_options, style=background_style, pad=…)` — the line `Text` renders
  itself through `Text.wrap(width=code_width, justify, overflow="fold", no_wrap=…)`, then every wrapped line is
  cropped / padded by `Segment.split_and_crop_lines`; the first row gets the number, the others a blank gutter;
* un-numbered: `console.render(text, width=code_width)` — the whole text wraps itself (its own `no_wrap=False` wins
  over `options.no_wrap`).

Without word wrap `renderW` IS `render`.
-/
namespace RichModel.Syntax
open RichModel

/-- styles play no part in which characters land on which row -/
def plainAlg : Wrap.StyleAlg Unit := { null := (), comb := fun _ => (), eqv := fun _ _ => true }

/-- a `Text` as `Syntax.highlight` / `Text.split` leave it, without spans -/
def rawText (s : List Char) (justify : Option Justify) (noWrap : Option Bool) : Text Unit :=
  { plain := s, length := (s.length : Int), spans := [], style := (), justify := justify, overflow := none,
    noWrap := noWrap, endStr := ['\n'], tabSize := some 8 }

/-- `Text.__rich_console__` of one text at `width`: `self.wrap(console, width, justify=self.justify or options.justify or
"fold", overflow="fold", no_wrap=pick_bool(self.no_wrap, options.no_wrap, False))` -> the plain lines. -/
def wrapPlain (wv : Wrap.WVariant) (cw : Char → Nat) (t : Text Unit) (width : Nat) (optNoWrap : Bool) : Option (List Line) :=
  -- `self.justify or options.justify or DEFAULT_OVERFLOW`: "fold" is no justify method, `Lines.justify` ignores it
  let j : Justify := t.justify.getD Justify.default
  match Wrap.wrap wv cw plainAlg t width (some j) (some Overflow.fold) (some 8) (some ((t.noWrap).getD optNoWrap)) with
  | .ok ls => some (ls.map (·.plain))
  | .error _ => none

/-- the rows of one numbered line under word wrap -/
def foldLine (wv : Wrap.WVariant) (cw : Char → Nat) (w : Nat) (pad : Bool) (justify : Option Justify) (lineNoWrap : Option Bool)
    (optNoWrap : Bool) (l : Line) : Option (List Line) :=
  (wrapPlain wv cw (rawText l justify lineNoWrap) w optNoWrap).map (fun ls => ls.map (fitLine cw w pad false))

def sequenceOpt : List (Option α) → Option (List α)
  | [] => some []
  | none :: _ => none
  | some a :: rest => (sequenceOpt rest).map (a :: ·)

/-- the characters of the rows of one numbered line: first row with the number, the others with `" " * ncw + " "` -/
def renderFolded (ncw : Nat) (legacy : Bool) (num : Nat) (marked : Bool) (bodies : List Line) : List Line :=
  match bodies with
  | [] => []
  | b :: rest => Row.render ncw legacy { num := num, marked := marked, body := b } ::
      rest.map (fun b' => List.replicate (ncw + 1) ' ' ++ b')

def numberFolded (ncw : Nat) (legacy : Bool) (hl : List Nat) : Nat → List (List Line) → List Line
  | _, [] => []
  | n, bs :: rest => renderFolded ncw legacy n (hl.contains n) bs ++ numberFolded ncw legacy hl (n + 1) rest

/-! ### segments: where `Text.render` cuts a line (needed only to crop a line THROUGH a zero-width character,
where `Segment.adjust_line_length` crops the segment at the edge, not the line) -/

/-- the pieces of the highlighted text, each with "a token span covers it" -/
def styledPieces (skipRaises found : Bool) (toks : List Line) (code : List Char) (range : Option (Int × Int)) :
    Except Err (List (Line × Bool)) :=
  if !found then .ok ((pieces (stripCtl code)).map (·, false))
  else match range with
    | none => .ok ((lineTokenize toks).map (·, true))
    | some (ls, le) =>
      match skipLoop skipRaises (ls - 1).toNat 0 (lineTokenize toks) with
      | .error e => .error e
      | .ok (y, ln, r) => .ok (y.map (·, false) ++ (takeLoop le ln r).map (·, true))

/-- group the pieces by line (a piece ending in a newline closes its line; like `split("\n")` the last line may be empty) -/
def piecesByLine : List (Line × Bool) → List (Line × Bool) → List (List (Line × Bool))
  | [], cur => [cur.reverse]
  | (p, st) :: rest, cur =>
    if endsNL p then ((p.dropLast, st) :: cur).reverse :: piecesByLine rest []
    else piecesByLine rest ((p, st) :: cur)

/-- the segments of one line: empty pieces vanish, neighbouring pieces without a span are one segment
(`pend` = the run of span-less characters collected so far) -/
def mergeSegsAux : Line → List (Line × Bool) → List Line
  | pend, [] => if pend.isEmpty then [] else [pend]
  | pend, (p, st) :: rest =>
    if p.isEmpty then mergeSegsAux pend rest
    else if st then (if pend.isEmpty then [] else [pend]) ++ p :: mergeSegsAux [] rest
    else mergeSegsAux (pend ++ p) rest

def mergeSegs (ps : List (Line × Bool)) : List Line := mergeSegsAux [] ps

/-- re-cut the segments of a guided line: same lengths, characters of `g`, and a cut at the end of the indent `n` -/
def resegment : List Line → Line → Nat → Nat → List Line
  | [], _, _, _ => []
  | sg :: rest, g, off, n =>
    let k := sg.length
    let piece := g.take k
    let tail := resegment rest (g.drop k) (off + k) n
    if off < n && n < off + k then piece.take (n - off) :: piece.drop (n - off) :: tail else piece :: tail

/-- `Segment.adjust_line_length` on a line that is too long, as plain characters -/
def cropSegs (cw : Char → Nat) (w : Nat) : List Line → Nat → Line
  | [], _ => []
  | sg :: rest, ll =>
    let n := cellLen cw sg
    if ll + n < w then sg ++ cropSegs cw w rest (ll + n) else setCellSize cw sg (w - ll)

/-- The segments of every numbered line (aligned with `selectedLines`), or none when offsets are unknown. -/
def selectedSegs (skipRaises rangePop : Bool) (o : Opts) (found : Bool) (lex : List Char → List Line) (code : List Char)
    (post : List Line) : Option (List (List Line)) :=
  let src := expandTabs o.tabSize (shownCode o code)
  -- stripping control characters line by line shifts the spans against the characters: not reproduced
  if found && src.any isStripCtl then none
  else match styledPieces skipRaises found (lex src) src o.lineRange with
    | .error _ => none
    | .ok ps =>
      let all := (piecesByLine ps []).map mergeSegs
      let sliced := match o.lineRange with
        | some (_, e) => pySlice all (lineOffset o) e
        | none => all
      let guided := o.indentGuides && !o.asciiOnly && (rangePop || !post.isEmpty)
      some (post.zipIdx.map (fun (g, i) =>
        let segs := sliced.getD i []
        if !guided then segs
        else
          let l := segs.flatten
          let n := leadSpaces l
          if (l.drop n).isEmpty || l.length != g.length then (if g.isEmpty then [] else [g])
          else resegment segs g 0 n))

/-- `console.render(Syntax(...), options)` with the word-wrap branches modelled; `none` = outside the model
(`Text.wrap` raised in the model, or a line must be cropped through a zero-width character without word wrap). -/
def renderW (wv : Wrap.WVariant) (cw : Char → Nat) (skipRaises rangePop : Bool) (o : Opts) (found : Bool)
    (lex : List Char → List Line) (code : List Char) : Option (Except Err (List Line)) :=
  if !o.wordWrap && o.lineNumbers then
    if inDomain cw skipRaises rangePop o found lex code then some (render cw skipRaises rangePop o found lex code)
    else
      -- some line has to be cropped through a zero-width character: crop segment by segment
      match selectedLines skipRaises rangePop o found lex code with
      | .error e => some (.error e)
      | .ok lines =>
        if decide (codeWidthInt o code < 0) then none
        else
          let w := (codeWidthInt o code).toNat
          match selectedSegs skipRaises rangePop o found lex code lines with
          | none => none
          | some segs =>
            let bodies := lines.zipIdx.map (fun (l, i) =>
              -- `adjust_line_length` measures cells only: a line that fits in cells is padded, however many characters it has
              if lineInDomain cw w false l || cellLen cw l ≤ w then fitLine cw w o.pad o.optNoWrap l
              else if o.optNoWrap then l
              else cropSegs cw w (segs.getD i [l]) 0)
            some (.ok ((numberRows (o.startLine + lineOffset o) o.highlightLines bodies).map
              (Row.render (numbersColumnWidth o code) o.legacyWindows)))
  else if !o.wordWrap then
    -- un-numbered, no word wrap: the text still renders itself through `Text.wrap` (with `no_wrap=True`: `rstrip_end`, then
    -- `truncate` crops the whole line with `set_cell_size`) — exact also through zero-width characters
    let src := expandTabs o.tabSize (shownCode o code)
    match highlight skipRaises found (lex src) src o.lineRange with
    | .error e => some (.error e)
    | .ok text =>
      if decide (codeWidthInt o code < 1) then some (.ok [])
      else (wrapPlain wv cw (rawText (removeSuffixNL text) (some (if o.pad then Justify.left else Justify.default)) (some true))
              (codeWidthInt o code).toNat o.optNoWrap).map Except.ok
  else
    let src := expandTabs o.tabSize (shownCode o code)
    match highlight skipRaises found (lex src) src o.lineRange with
    | .error e => some (.error e)
    | .ok text =>
      let text := removeSuffixNL text
      let justify : Option Justify := some (if o.pad then Justify.left else Justify.default)
      if o.lineNumbers then
        match selectedLines skipRaises rangePop o found lex code with
        | .error e => some (.error e)
        | .ok lines =>
          if decide (codeWidthInt o code < 1) then some (.ok [])
          else
            let w := (codeWidthInt o code).toNat
            let guided := o.indentGuides && !o.asciiOnly && (rangePop || !lines.isEmpty)
            -- a line `Text` made by `divide` / `join` has `no_wrap=None` and (after guides) `justify=None`;
            -- the copy of a one-line text keeps the text's own `no_wrap=False`
            let lineNoWrap : Option Bool := if guided || text.contains '\n' then none else some false
            let lineJustify : Option Justify := if guided then none else justify
            match sequenceOpt (lines.map (foldLine wv cw w o.pad lineJustify lineNoWrap o.optNoWrap)) with
            | none => none
            | some bodies =>
              some (.ok (numberFolded (numbersColumnWidth o code) o.legacyWindows o.highlightLines (o.startLine + lineOffset o) bodies))
      else
        if decide (codeWidthInt o code < 1) then some (.ok [])
        else (wrapPlain wv cw (rawText text justify (some false)) (codeWidthInt o code).toNat o.optNoWrap).map Except.ok

end RichModel.Syntax
