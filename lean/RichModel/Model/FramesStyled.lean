import RichModel.Model.Frames
/-
The STYLED layer of the frame models (property C08, deepening round).

`Model/Frames.lean` models text, segmentation and control flags; the segments a frame creates there carry
`style := none`.  This file models the same frames *with* the styles rich gives to the cells it adds —
padding blanks, border characters, the title — and with the style it lays over the child's segments
(`Segment.apply_style`), for an arbitrary style algebra `SOps σ` (`Style.__add__` and the null style).
It also adds what the first round left out: `VerticalCenter`, a title *oracle* for `Panel` (so that any
`Text` title — spans, tabs, wider than the console — can be plugged in: `Model/FramesTitle.lean`), and
three more code-variant flags.

Nothing in `Model/Frames.lean` is changed (C01 / C09 / C14 build on it).  (An erasure lemma — erasing the styles of
what is defined here gives back exactly those functions — was planned; `Lemmas/FramesStyled.lean` holds the
line-structure and style lemmas, and the two layers are tied by the C08 correspondence, which compares both.)
-/
namespace RichModel.Frames
open RichModel

variable {σ : Type}

/-- What the frames need from `rich.style.Style`: `__add__` and the null style (`Style.null()`, which is
what `console.get_style("none")` returns). -/
structure SOps (σ : Type) where
  add : σ → σ → σ
  null : σ

/-- `style + segment_style` where the segment's style may be `None` (`Style.__add__(None)` returns `self`). -/
def SOps.addO (A : SOps σ) (s : σ) : Option σ → σ
  | none => s
  | some t => A.add s t

/-- `Segment.apply_style(segments, style)` (segment.py:72-111, no `post_style`): `None` leaves the
segments alone; otherwise every non-control segment gets `style + segment.style`, control segments `None`. -/
def applyStyle (A : SOps σ) (style : Option σ) (segs : List (Segment σ)) : List (Segment σ) :=
  match style with
  | none => segs
  | some s => segs.map (fun g =>
      { text := g.text, style := if g.control then none else some (A.addO s g.style), control := g.control })

/-- `Segment(text, style)` -/
def segS (st : Option σ) (t : List Char) : Segment σ := { text := t, style := st, control := false }

/-- Code variants of this layer (`true` = rich as found). -/
structure SVariant where
  base : Variant := {}
  /-- `Console.render_lines(..., style=style)` applies `style` to the rendered segments but pads short lines
  with `style=None` (console.py:925-929 does not hand `style` to `split_and_crop_lines`): the blanks that
  complete a child's line inside a `Panel(style=…)` are unstyled.  `false` = the repair, fix 63e086e, in /repo now. -/
  linesPadUnstyled : Bool := true
  /-- `Panel` renders its title with `console.render(title_text)` — no options, i.e. at `console.width`
  (panel.py:147) — instead of at the width it aligned the title to.  `false` = the repair, fix 0e1edf7, in /repo now
  (`console.options.update(width=width - 4)`; `Console.render` yields nothing below 1). -/
  titleAtConsoleWidth : Bool := true
  /-- `Rule` without a title builds its `Text` with the default `end` (rule.py:62), ignoring `self.end`.
  `false` = the repair, fix a442cbd, in /repo now. -/
  ruleNoTitleEnd : Bool := true
deriving Repr

/-- `Console.render_lines(renderable, options.update(width=w), style=style, pad=pad)` given the rendering. -/
def renderLinesS (cw : Char → Nat) (A : SOps σ) (sv : SVariant) (rendered : List (Segment σ)) (w : Int)
    (style : Option σ) (pad : Bool) : List (Line σ) :=
  splitAndCropLines cw (applyStyle A style rendered) w.toNat (if sv.linesPadUnstyled then none else style) pad false false

def Child.linesAtS (cw : Char → Nat) (A : SOps σ) (sv : SVariant) (c : Child σ) (w : Int) (style : Option σ) (pad : Bool) :
    List (Line σ) :=
  renderLinesS cw A sv (c.renderAt w) w style pad

/-! ## Padding (padding.py:77-113); `s = console.get_style(self.style)` -/

def paddingConsoleS (cw : Char → Nat) (A : SOps σ) (sv : SVariant) (s : σ) (p : PadDims) (expand : Bool) (c : Child σ)
    (w : Int) : List (Segment σ) :=
  let width : Int :=
    if expand then w
    else min (fitWidth sv.base (c.measureAt w).maximum + p.left + p.right) w
  let childW : Int := width - p.left - p.right
  let lines := c.linesAtS cw A sv childW (some s) false
  let lines := setShape cw lines childW.toNat none (some s)
  let blank : Segment σ := segS (some s) (rep width ' ' ++ ['\n'])
  let left : List (Segment σ) := if p.left != 0 then [segS (some s) (rep p.left ' ')] else []
  let right : List (Segment σ) := if p.right != 0 then [segS (some s) (rep p.right ' ')] else []
  List.replicate p.top blank
    ++ lines.flatMap (fun l => left ++ l ++ right ++ [nl])
    ++ List.replicate p.bottom blank

def paddingChildS (cw : Char → Nat) (A : SOps σ) (sv : SVariant) (s : σ) (p : PadDims) (expand : Bool) (c : Child σ) : Child σ :=
  asChild (paddingConsoleS cw A sv s p expand c) (paddingRichMeasure p c)

/-! ## Styled, Constrain -/

def styledConsoleS (A : SOps σ) (s : σ) (c : Child σ) (w : Int) : List (Segment σ) := applyStyle A (some s) (c.renderAt w)
def styledChildS (A : SOps σ) (s : σ) (c : Child σ) : Child σ := asChild (styledConsoleS A s c) (styledRichMeasure c)

/-! ## Panel (panel.py:110-162) with a title oracle -/

/-- The title of a panel as an oracle: `cells` = `title_text.cell_len` after `Panel._title`; `render st n ch rw`
= `list(console.render(title_text, <options of width rw>))` after `title_text.style = st` and
`title_text.align(title_align, n, character=ch)`; `none` = outside the modelled domain. -/
structure TitleO (σ : Type) where
  cells : Int
  render : σ → Int → Char → Int → Option (List (Segment σ))

/-- the one-line simple titles of `Model/Frames.lean` as a title oracle -/
def simpleTitle (cw : Char → Nat) (v : Variant) (title : List Char) (a : AlignM) : Option (TitleO σ) :=
  match panelTitle title with
  | none => none
  | some t => some
    { cells := cellLen cw t,
      render := fun st n ch rw =>
        if rw < 1 then some [] else    -- `Console.render`: nothing is rendered in no space
        match textConsoleSimple (σ := σ) cw v (textAlign cw t a n ch) [] rw with
        | none => none
        | some ts => some (ts.map (fun g => { g with style := some st })) }

/-- the `renderable` of `Panel.__rich_console__`: `Padding(child, pad)` (style `"none"`) if any(pad) -/
def panelInnerS (cw : Char → Nat) (A : SOps σ) (sv : SVariant) (p : PadDims) (c : Child σ) : Child σ :=
  if p.top != 0 || p.right != 0 || p.bottom != 0 || p.left != 0 then paddingChildS cw A sv A.null p true c else c

def panelChildWidthS (sv : SVariant) (o : PanelOpts) (title : Option (TitleO σ)) (inner : Child σ) (w : Int) : Int :=
  let width : Int := match o.width with | none => w | some pw => min w pw
  let childW : Int := if o.expand then width - 2 else fitWidth sv.base (inner.measureAt (width - 2)).maximum
  match title with
  | none => childW
  | some t => min (w - 2) (max childW (t.cells + 2))

/-- `Panel.__rich_console__`; `s = get_style(self.style)`, `b = get_style(self.border_style)`,
`o.title` is NOT read (the title is `title`). -/
def panelConsoleS (cw : Char → Nat) (A : SOps σ) (env : Env) (sv : SVariant) (o : PanelOpts) (s b : σ)
    (title : Option (TitleO σ)) (c : Child σ) (w : Int) : Except PyErr (Option (List (Segment σ))) :=
  match unpackPad o.padding with
  | .error e => .error e
  | .ok p =>
    let inner := panelInnerS cw A sv p c
    let bs := A.add s b                                  -- border_style = style + get_style(border_style)
    let safe := o.safeBox.getD env.safeBox
    match boxAt (substituteBox env safe o.box) with
    | none => .ok none
    | some box =>
      let childW := panelChildWidthS sv o title inner w
      let width := childW + 2
      let lines := inner.linesAtS cw A sv childW (some s) true
      let top : Option (List (Segment σ)) :=
        match title with
        | none => some [segS (some bs) (boxTop box (width - 2))]
        | some t =>
          let rw : Int := if sv.titleAtConsoleWidth then (env.consoleWidth : Int) else width - 4
          match t.render bs (width - 4) box.top rw with
          | none => none
          | some ts => some ([segS (some bs) [box.topLeft, box.top]] ++ ts ++ [segS (some bs) [box.top, box.topRight]])
      match top with
      | none => .ok none
      | some top =>
        .ok (some (top ++ [nl]
          ++ lines.flatMap (fun l => [segS (some bs) [box.midLeft]] ++ l ++ [segS (some bs) [box.midRight]] ++ [nl])
          ++ [segS (some bs) (boxBottom box (width - 2)), nl]))

/-- `Panel.__rich_measure__`: `measure_renderables([child, title])`; `titleMax mw` = the maximum of
`Measurement.get(console, title_text, mw)`. -/
def panelRichMeasureS (o : PanelOpts) (titleMax : Option (Int → Int)) (c : Child σ) (maxWidth : Int) : Except PyErr Measurement :=
  match unpackPad o.padding with
  | .error e => .error e
  | .ok p =>
    let padding : Int := p.left + p.right
    match o.width with
    | some pw => .ok ⟨pw, pw⟩
    | none =>
      let avail := maxWidth - padding - 2
      let mc := (c.measureAt avail).maximum
      let m := match titleMax with
        | none => mc
        | some f => max mc (f avail)
      .ok ⟨m + padding + 2, m + padding + 2⟩

/-! ## Align (align.py:91-154); `style = get_style(self.style) if self.style is not None else None` -/

def alignConsoleS (cw : Char → Nat) (A : SOps σ) (env : Env) (sv : SVariant) (o : AlignOpts) (style : Option σ)
    (c : Child σ) (w : Int) : List (Segment σ) :=
  let measured : Int := fitWidth sv.base (c.measureAt env.consoleWidth).maximum
  let cwid : Int := match o.width with | none => measured | some aw => min measured aw
  let rendered := constrainConsole (some cwid) c w
  let lines := splitLines rendered
  let width := shapeWidth cw lines
  let lines := setShape cw lines width (some lines.length) none
  let excess : Int := w - width
  let out : List (Segment σ) :=
    if excess ≤ 0 then lines.flatMap (fun l => l ++ [nl])
    else match o.align with
      | .left =>
        let pad : List (Segment σ) := if o.pad then [segS style (rep excess ' ')] else []
        lines.flatMap (fun l => l ++ pad ++ [nl])
      | .center =>
        let left := excess / 2
        let padL : List (Segment σ) := if left != 0 then [segS style (rep left ' ')] else []
        let padR : List (Segment σ) := if o.pad then [segS style (rep (excess - left) ' ')] else []
        lines.flatMap (fun l => padL ++ l ++ padR ++ [nl])
      | .right =>
        lines.flatMap (fun l => [segS style (rep excess ' ')] ++ l ++ [nl])
  applyStyle A style out

def alignChildS (cw : Char → Nat) (A : SOps σ) (env : Env) (sv : SVariant) (o : AlignOpts) (style : Option σ) (c : Child σ) : Child σ :=
  asChild (alignConsoleS cw A env sv o style c) (alignRichMeasure c)

/-! ## VerticalCenter (align.py:161-203); `height = console.size.height` -/

def verticalCenterConsoleS (cw : Char → Nat) (height : Int) (style : Option σ) (c : Child σ) (w : Int) : List (Segment σ) :=
  let lines := c.linesAt cw w false
  let width := shapeWidth cw lines
  let topSpace : Int := (height - lines.length) / 2
  let bottomSpace : Int := height - topSpace - lines.length
  let blank : List (Segment σ) := [segS style (rep width ' '), nl]
  (if topSpace > 0 then (List.replicate topSpace.toNat blank).flatten else [])
    ++ lines.flatMap (fun l => l ++ [nl])
    ++ (if bottomSpace > 0 then (List.replicate bottomSpace.toNat blank).flatten else [])

def verticalCenterChildS (cw : Char → Nat) (height : Int) (style : Option σ) (c : Child σ) : Child σ :=
  asChild (verticalCenterConsoleS cw height style c) (alignRichMeasure c)

/-! ## Rule: the `end` of a rule without title -/

def ruleTextS (cw : Char → Nat) (env : Env) (sv : SVariant) (o : RuleOpts) (w : Int) : List Char × List Char :=
  let pe := ruleText cw env sv.base o w
  (pe.1, if o.title.isEmpty && !sv.ruleNoTitleEnd then o.endS else pe.2)

end RichModel.Frames
