import RichModel.Model.Ansi
/-!
The encoder's SGR parameter text fed straight back to the decoder (no text, no tokenizer): the composition
`Style._make_ansi_codes(TRUECOLOR)` → `ESC [ params m` → `AnsiDecoder.decode_line` → `decoder.style`, for the styles
that have exactly one thing set (one attribute, one colour).  Used by `Lemmas/AnsiParams.lean` (exhaustive check) and
by the driver (`ansi_attr_params`, `ansi_color_params`).
-/
namespace RichModel
namespace Ansi

/-- `Style(<attribute i>=on)`: exactly attribute `i` given, as `True` (`on`) or as `False` -/
def attrStyle (i : Nat) (on : Bool) : Style :=
  { Style.null with attributes := if on then 2 ^ i else 0, setAttributes := 2 ^ i, isNull := false, styleDef := none }

/-- decode the parameter text of one `ESC [ … m` from the null style: the style reached, `none` if anything raised -/
def decodeParams (cfg : Cfg) (p : List Char) : Option Style :=
  match sgrCodes cfg p with
  | .ok codes =>
    match applyCodes cfg Style.null codes 0 with
    | (st, none) => some st
    | (_, some _) => none
  | .error _ => none

end Ansi
end RichModel
