import RichModel.Model.Cells
/-
Model of rich/pretty.py: `Node` (iter_tokens, check_length, __str__, render), `_Line`
(expandable, check_length, expand, __str__), `traverse` (over a heap of objects with identities),
`pretty_repr`.  Core Lean only (imports Model/Cells for `cellLen`), so the driver links natively.

Every definition mirrors the Python statement by statement; quirks are kept.  Three places where
rich 9.10.0 as found was defective are selected by *variant flags* (`Variant`): `true` = rich 9.10.0 as found,
`false` = the minimally repaired code, which /repo contains now (`fix:` commits 376cec1, e5d1b9a, db5535b; see
Props/C16.lean for the theorems and the witnesses).  Since the deepening round `Pretty.__rich_measure__` /
`__rich_console__` are modelled on the traversed tree and the options are `Int`s as in the code.

What is NOT modelled but enters as a parameter (runtime facts):
* `repr()` of leaves: an atom is an opaque token string; for `str`/`bytes` leaves the characters are
  in the model and `pyRepr : Bool → Str → Str` (isBytes, characters ↦ Python's repr) is a parameter;
* the width function `cw` (instantiated with the generated table in the driver).
-/
namespace RichModel.Pretty
open RichModel

abbrev Str := List Char

/-- Which variant of the code is modelled.  `dropSuffix = true`: `_Line.expand` computes the suffix of
the closing line from the node (as found, F24; before fix 376cec1); `false`: it carries the expanded line's own suffix.
`arrayLiteral = true`: the empty form of `array` is the literal text `array({_object.typecode!r})`
(as found, F12: missing f-string; before fix e5d1b9a); `false`: `array('<typecode>')`. -/
structure Variant where
  dropSuffix : Bool
  arrayLiteral : Bool
  /-- `Pretty.__rich_measure__` calls `pretty_repr` without `expand_all` (as found, F26); `false`: it passes
  `expand_all=self.expand_all`, like `__rich_console__` does. -/
  measureNoExpandAll : Bool := true

/-- rich 9.10.0 as found (the name `today` dates from before the `fix:` commits) / the repaired code, which /repo contains now. -/
def Variant.today : Variant := ⟨true, true, true⟩
def Variant.repaired : Variant := ⟨false, false, false⟩
/-- /repo after the `fix:` commits 376cec1, e5d1b9a and before db5535b (F26 as found); the name dates from then:
what /repo contains now is `Variant.repaired`. -/
def Variant.current : Variant := ⟨false, false, true⟩

/-! ### `Node` (pretty.py:244-303) -/

/-- `@dataclass class Node`.  `children: Optional[List[Node]]` is represented by `isContainer`
(`children is not None`) and the list (`[]` when `children is None`). -/
inductive Node where
  | mk (keyRepr valueRepr openBrace closeBrace empty : Str) (last isTuple isContainer : Bool)
       (children : List Node)

namespace Node

def keyRepr : Node → Str | .mk k _ _ _ _ _ _ _ _ => k
def valueRepr : Node → Str | .mk _ v _ _ _ _ _ _ _ => v
def openBrace : Node → Str | .mk _ _ o _ _ _ _ _ _ => o
def closeBrace : Node → Str | .mk _ _ _ c _ _ _ _ _ => c
def empty : Node → Str | .mk _ _ _ _ e _ _ _ _ => e
def last : Node → Bool | .mk _ _ _ _ _ l _ _ _ => l
def isTuple : Node → Bool | .mk _ _ _ _ _ _ t _ _ => t
def isContainer : Node → Bool | .mk _ _ _ _ _ _ _ ic _ => ic
def children : Node → List Node | .mk _ _ _ _ _ _ _ _ ch => ch

/-- `child_node.key_repr = …; child_node.last = …` (attribute assignment in `_traverse`). -/
def setKeyLast : Node → Str → Bool → Node
  | .mk _ v o c e _ t ic ch, k, l => .mk k v o c e l t ic ch
def setLast : Node → Bool → Node
  | .mk k v o c e _ t ic ch, l => .mk k v o c e l t ic ch

/-- `separator` property: `"" if self.last else ","`. -/
def separator (n : Node) : Str := if n.last then [] else [',']

/-- `node.is_tuple and len(node.children) == 1`. -/
def tupleOfOne (n : Node) : Bool := n.isTuple && n.children.length == 1

mutual
/-- `iter_tokens` (pretty.py:262-282). -/
def tokens : Node → List Str
  | .mk k v o c e _ tup ic ch =>
    (if k.isEmpty then [] else [k, [':', ' ']]) ++
    (if !v.isEmpty then [v]
     else if ic then
       (if !ch.isEmpty then [o] ++ tokensList (tup && ch.length == 1) ch ++ [c] else [e])
     else [])
/-- the two loops over `self.children`: `one` selects the single-element-tuple branch
(child tokens then `","`), otherwise child tokens then `", "` unless `child.last`. -/
def tokensList (one : Bool) : List Node → List Str
  | [] => []
  | c :: cs =>
    c.tokens ++ (if one then [[',']] else if !c.last then [[',', ' ']] else []) ++ tokensList one cs
end

/-- `__str__`: `"".join(self.iter_tokens())`. -/
def str (n : Node) : Str := n.tokens.flatten

/-- The loop of `check_length` (pretty.py:294-299) with its early exit. -/
def checkLoop (cw : Char → Nat) (maxLength : Int) : Nat → List Str → Bool
  | _, [] => true
  | total, t :: ts =>
    if ((total + cellLen cw t : Nat) : Int) > maxLength then false
    else checkLoop cw maxLength (total + cellLen cw t) ts

/-- `check_length(start_length, max_length)`. -/
def checkLength (cw : Char → Nat) (n : Node) (startLength : Nat) (maxLength : Int) : Bool :=
  checkLoop cw maxLength startLength n.tokens

mutual
/-- Termination measure of the render loop: `1 + Σ (1 + weight child)`. -/
def weight : Node → Nat
  | .mk _ _ _ _ _ _ _ _ ch => 1 + weightList ch
def weightList : List Node → Nat
  | [] => 0
  | c :: cs => 1 + c.weight + weightList cs
end

end Node

/-! ### `_Line` (pretty.py:331-385) -/

/-- `@dataclass class _Line`. -/
structure Line where
  isRoot : Bool := false
  node : Option Node := none
  text : Str := []
  suffix : Str := []
  whitespace : Str := []
  expanded : Bool := false

namespace Line

/-- `expandable`: `bool(self.node is not None and self.node.children)`. -/
def expandable (l : Line) : Bool :=
  match l.node with
  | some n => n.isContainer && !n.children.isEmpty
  | none => false

/-- The node of a line the render loop may expand: `line.expandable and not line.expanded`.
(Gives the `assert self.node is not None` / `assert node.children` of `check_length` / `expand`
by construction.) -/
def expandNode (l : Line) : Option Node :=
  match l.node with
  | some n => if n.isContainer && !n.children.isEmpty && !l.expanded then some n else none
  | none => none

/-- `check_length(max_length)` for a line that has a node. -/
def checkLength (cw : Char → Nat) (l : Line) (n : Node) (maxLength : Int) : Bool :=
  n.checkLength cw (l.whitespace.length + cellLen cw l.text + cellLen cw l.suffix) maxLength

/-- first line yielded by `expand`: the opening brace (with the key, if any). -/
def expandHead (l : Line) (n : Node) : Line :=
  if !n.keyRepr.isEmpty then
    { text := n.keyRepr ++ [':', ' '] ++ n.openBrace, whitespace := l.whitespace }
  else
    { text := n.openBrace, whitespace := l.whitespace }

/-- the child lines yielded by `expand`. -/
def expandKids (l : Line) (n : Node) (indentSize : Int) : List Line :=
  n.children.map fun child =>
    { node := some child,
      -- `" " * indent_size`: the empty string for a negative count
      whitespace := l.whitespace ++ List.replicate indentSize.toNat ' ',
      suffix := if n.tupleOfOne then [','] else child.separator }

/-- last line yielded by `expand`: the closing brace.  rich 9.10.0 as found (`dropSuffix`, before fix 376cec1) derives the
suffix from the node; the repaired code carries the suffix of the line being expanded. -/
def expandClose (v : Variant) (l : Line) (n : Node) : Line :=
  { text := n.closeBrace, whitespace := l.whitespace,
    suffix := if v.dropSuffix then (if n.tupleOfOne && !l.isRoot then [','] else n.separator)
              else l.suffix }

/-- everything `expand` yields after the opening line. -/
def expandTail (v : Variant) (l : Line) (n : Node) (indentSize : Int) : List Line :=
  l.expandKids n indentSize ++ [l.expandClose v n]

/-- `expand(indent_size)` (pretty.py:355-382). -/
def expand (v : Variant) (l : Line) (n : Node) (indentSize : Int) : List Line :=
  l.expandHead n :: l.expandTail v n indentSize

/-- `__str__`: `f"{self.whitespace}{self.text}{self.node or ''}{self.suffix}"`. -/
def str (l : Line) : Str :=
  l.whitespace ++ l.text ++ (match l.node with | some n => n.str | none => []) ++ l.suffix

/-- termination weight of a pending line. -/
def weight (l : Line) : Nat :=
  match l.node with
  | some n => 1 + n.weight
  | none => 1

end Line

def todoWeight : List Line → Nat
  | [] => 0
  | l :: ls => l.weight + todoWeight ls

theorem todoWeight_append (a b : List Line) : todoWeight (a ++ b) = todoWeight a + todoWeight b := by
  induction a with
  | nil => simp [todoWeight]
  | cons x xs ih => simp [todoWeight, ih]; omega

theorem todoWeight_kids (ch : List Node) (ws sfx : Node → Str) :
    todoWeight (ch.map fun c => ({ node := some c, whitespace := ws c, suffix := sfx c } : Line))
      = Node.weightList ch := by
  induction ch with
  | nil => simp [todoWeight, Node.weightList]
  | cons c cs ih => simp [todoWeight, Node.weightList, Line.weight, ih]

theorem expandNode_some {l : Line} {n : Node} (h : l.expandNode = some n) : l.node = some n := by
  unfold Line.expandNode at h
  split at h
  · split at h
    · simp_all
    · cases h
  · cases h

theorem todoWeight_expandTail (v : Variant) (l : Line) (n : Node) (ind : Int) :
    todoWeight (l.expandTail v n ind) = n.weight := by
  unfold Line.expandTail Line.expandKids
  rw [todoWeight_append, todoWeight_kids]
  cases n with
  | mk k vr o c e la t ic ch =>
    simp [Node.children, Node.weight, todoWeight, Line.weight, Line.expandClose]
    omega

/-- Should this line be expanded?  (`expand_all or not line.check_length(max_width)`.) -/
def mustExpand (cw : Char → Nat) (maxWidth : Int) (expandAll : Bool) (l : Line) (n : Node) : Bool :=
  expandAll || !(l.checkLength cw n maxWidth)

set_option linter.unusedVariables false in
/-- The `while line_no < len(lines)` loop of `Node.render` (pretty.py:318-325).
`done` is `lines[:line_no]` reversed, the first argument is `lines[line_no:]`.
Replacing `lines[line_no:line_no+1]` by the expansion and then `line_no += 1` passes over the
opening line and leaves the children and the closing line pending.

The recursion is well-founded on the total weight of the pending lines. -/
def renderLoop (cw : Char → Nat) (v : Variant) (maxWidth indentSize : Int) (expandAll : Bool) :
    List Line → List Line → List Line
  | [], done => done.reverse
  | l :: rest, done =>
    match h : l.expandNode with
    | some n =>
      if mustExpand cw maxWidth expandAll l n then
        renderLoop cw v maxWidth indentSize expandAll (l.expandTail v n indentSize ++ rest)
          (l.expandHead n :: done)
      else renderLoop cw v maxWidth indentSize expandAll rest (l :: done)
    | none => renderLoop cw v maxWidth indentSize expandAll rest (l :: done)
termination_by todo => todoWeight todo
decreasing_by
  · rw [todoWeight_append, todoWeight_expandTail]
    simp only [todoWeight, Line.weight, expandNode_some h]
    omega
  · simp only [todoWeight]
    have : 0 < l.weight := by unfold Line.weight; split <;> omega
    omega
  · simp only [todoWeight]
    have : 0 < l.weight := by unfold Line.weight; split <;> omega
    omega

/-- `lines = [_Line(node=self, is_root=True)]`. -/
def rootLine (n : Node) : Line := { node := some n, isRoot := true }

/-- The lines of `Node.render` before they are joined. -/
def renderLines (cw : Char → Nat) (v : Variant) (n : Node) (maxWidth indentSize : Int)
    (expandAll : Bool) : List Line :=
  renderLoop cw v maxWidth indentSize expandAll [rootLine n] []

/-- `"\n".join(str(line) for line in lines)`. -/
def joinLines (ls : List Str) : Str := List.intercalate ['\n'] ls

/-- `Node.render(max_width, indent_size, expand_all)`. -/
def render (cw : Char → Nat) (v : Variant) (n : Node) (maxWidth indentSize : Int)
    (expandAll : Bool) : Str :=
  joinLines ((renderLines cw v n maxWidth indentSize expandAll).map Line.str)

/-! ### `traverse` (pretty.py:388-475) over a heap of objects with identities -/

/-- A non-container object as `to_repr` sees it.  `atom r`: `repr(obj)` is `r` (runtime);
`str isBytes chars`: a `str`/`bytes` object (the only ones `max_string` applies to);
`broken msg`: `repr(obj)` raises `Exception(msg)`. -/
inductive Leaf where
  | atom (repr : Str)
  | str (isBytes : Bool) (chars : Str)
  | broken (msg : Str)

/-- exact types in `_CONTAINERS` that are not mappings … -/
inductive SeqKind where
  | array | deque | frozenset | list | set | tuple
deriving DecidableEq

/-- … and those for which `isinstance(obj, (dict, os._Environ))` holds. -/
inductive MapKind where
  | environ | defaultdict | counter | dict
deriving DecidableEq

/-- A heap object.  `aux` is `repr(typecode)` for arrays and `repr(default_factory)` for
defaultdicts (runtime strings), unused otherwise.  Items are references (heap indices). -/
inductive HObj where
  /-- any object whose exact type is not in `_CONTAINERS` (this includes subclasses of list, tuple, dict,
  namedtuples, dataclass instances); `isTuple` is `isinstance(obj, tuple)`, which `_traverse` records on
  every node. -/
  | leaf (l : Leaf) (isTuple : Bool)
  | seq (k : SeqKind) (aux : Str) (items : List Nat)
  | map (k : MapKind) (aux : Str) (items : List (Leaf × Nat))

abbrev Heap := List HObj

/-- `_BRACES[obj_type](obj)` (pretty.py:216-239) for the non-mapping containers. -/
def seqBraces (v : Variant) : SeqKind → Str → Str × Str × Str
  | .array, tc =>
    ("array(".toList ++ tc ++ ", [".toList, "])".toList,
      if v.arrayLiteral then "array({_object.typecode!r})".toList
      else "array(".toList ++ tc ++ ")".toList)
  | .deque, _ => ("deque([".toList, "])".toList, "deque()".toList)
  | .frozenset, _ => ("frozenset({".toList, "})".toList, "frozenset()".toList)
  | .list, _ => ("[".toList, "]".toList, "[]".toList)
  | .set, _ => ("{".toList, "}".toList, "set()".toList)
  | .tuple, _ => ("(".toList, ")".toList, "()".toList)

def mapBraces : MapKind → Str → Str × Str × Str
  | .environ, _ => ("environ({".toList, "})".toList, "environ({})".toList)
  | .defaultdict, f =>
    ("defaultdict(".toList ++ f ++ ", {".toList, "})".toList,
      "defaultdict(".toList ++ f ++ ", {})".toList)
  | .counter, _ => ("Counter({".toList, "})".toList, "Counter()".toList)
  | .dict, _ => ("{".toList, "}".toList, "{}".toList)

/-- decimal digits of a natural number (`f"{n}"`). -/
def natStr (n : Nat) : Str := (Nat.repr n).toList

/-- `obj[:stop]` for a sequence: a negative stop counts from the end, clamped at 0. -/
def sliceTo (cs : Str) (stop : Int) : Str :=
  if stop ≥ 0 then cs.take stop.toNat else cs.take ((cs.length : Int) + stop).toNat

/-- the `str`/`bytes` branch of `to_repr`: `f"{obj[:max_string]!r}+{truncated}"` when
`max_string is not None and len(obj) > max_string`, else `repr(obj)`. -/
def strRepr (pyRepr : Bool → Str → Str) (maxString : Option Int) (b : Bool) (cs : Str) : Str :=
  match maxString with
  | some m =>
    if (cs.length : Int) > m then
      pyRepr b (sliceTo cs m) ++ ['+'] ++ natStr ((cs.length : Int) - m).toNat
    else pyRepr b cs
  | none => pyRepr b cs

/-- `<repr-error '{error}'>` -/
def reprError (msg : Str) : Str := "<repr-error '".toList ++ msg ++ "'>".toList

/-- `to_repr(obj)` (pretty.py:402-416). -/
def toRepr (pyRepr : Bool → Str → Str) (maxString : Option Int) : Leaf → Str
  | .atom r => r
  | .broken msg => reprError msg
  | .str b cs => strRepr pyRepr maxString b cs

/-- `Node(value_repr="...")` — recursion detected. -/
def cycleMarker : Node := .mk [] ['.', '.', '.'] [] [] [] false false false []

/-- `Node(value_repr=f"... +{num_items-max_length}", last=True)`. -/
def moreMarker (omitted : Nat) : Node :=
  .mk [] ("... +".toList ++ natStr omitted) [] [] [] true false false []

/-- `islice(iter, max_length)` when `max_length is not None`. -/
def shown {α} (maxLength : Option Nat) (items : List α) : List α :=
  match maxLength with
  | some m => items.take m
  | none => items

/-- `if max_length is not None and num_items > max_length: append(…)`. -/
def withMore (maxLength : Option Nat) (numItems : Nat) (kids : List Node) : List Node :=
  match maxLength with
  | some m => if numItems > m then kids ++ [moreMarker (numItems - m)] else kids
  | none => kids

def optList {α} : List (Option α) → Option (List α)
  | [] => some []
  | none :: _ => none
  | some a :: r => (optList r).map (a :: ·)

/-- `enumerate` -/
def enum {α} : Nat → List α → List (Nat × α)
  | _, [] => []
  | i, a :: r => (i, a) :: enum (i + 1) r

structure TravCfg where
  pyRepr : Bool → Str → Str
  variant : Variant
  maxLength : Option Nat
  maxString : Option Int

/-- `_traverse(obj, root)` (pretty.py:422-472).  `visited` is `visited_ids` (the ids pushed and not
yet popped = the containers on the current path; `pop_visited` is the return to the caller's list).
`fuel` bounds the depth: `none` = out of fuel or a dangling reference (never for
`fuel = |heap| + 1` on a well-formed heap: `traverse_total`). -/
def traverseObj (cfg : TravCfg) (h : Heap) : Nat → List Nat → Nat → Bool → Option Node
  | 0, _, _, _ => none
  | fuel + 1, visited, id, root =>
    match h[id]? with
    | none => none
    | some (.leaf l isTup) =>
      some (.mk [] (toRepr cfg.pyRepr cfg.maxString l) [] [] [] root isTup false [])
    | some (.seq k aux items) =>
      if visited.contains id then some cycleMarker
      else
        let br := seqBraces cfg.variant k aux
        if items.isEmpty then some (.mk [] [] [] [] br.2.2 root (k == .tuple) true [])
        else
          let lastIdx := items.length - 1
          match optList ((enum 0 (shown cfg.maxLength items)).map fun (i, r) =>
              (traverseObj cfg h fuel (id :: visited) r false).map (·.setLast (i == lastIdx))) with
          | none => none
          | some kids =>
            some (.mk [] [] br.1 br.2.1 [] root (k == .tuple) true
              (withMore cfg.maxLength items.length kids))
    | some (.map k aux items) =>
      if visited.contains id then some cycleMarker
      else
        let br := mapBraces k aux
        if items.isEmpty then some (.mk [] [] [] [] br.2.2 root false true [])
        else
          let lastIdx := items.length - 1
          match optList ((enum 0 (shown cfg.maxLength items)).map fun (i, kr) =>
              (traverseObj cfg h fuel (id :: visited) kr.2 false).map
                (·.setKeyLast (toRepr cfg.pyRepr cfg.maxString kr.1) (i == lastIdx))) with
          | none => none
          | some kids =>
            some (.mk [] [] br.1 br.2.1 [] root false true
              (withMore cfg.maxLength items.length kids))

/-- `traverse(_object, max_length, max_string)`. -/
def traverse (cfg : TravCfg) (h : Heap) (root : Nat) : Option Node :=
  traverseObj cfg h (h.length + 1) [] root true

/-- `pretty_repr(_object, max_width=, indent_size=, max_length=, max_string=, expand_all=)`
for `max_length` in its valid domain (`None` or `>= 0`). -/
def prettyRepr (cw : Char → Nat) (cfg : TravCfg) (h : Heap) (root : Nat)
    (maxWidth indentSize : Int) (expandAll : Bool) : Option Str :=
  (traverse cfg h root).map fun n => render cw cfg.variant n maxWidth indentSize expandAll

/-! ### Options outside their valid domain -/

/-- Python exceptions this module can raise on the modelled inputs. -/
inductive Err where
  | valueError     -- `islice(it, negative)`, `max()` of an empty sequence
deriving DecidableEq

/-- Is the object a non-empty container (`type(obj) in _CONTAINERS and obj`)? -/
def nonEmptyContainer (h : Heap) (id : Nat) : Bool :=
  match h[id]? with
  | some (.seq _ _ items) => !items.isEmpty
  | some (.map _ _ items) => !items.isEmpty
  | _ => false

/-- `traverse` with `max_length` as Python receives it (any integer or `None`).
`islice(iter, max_length)` raises `ValueError` for a negative stop.  `max_length` is the same at every
level and `islice` is called before any child is visited, so the first `islice` call of a traversal is
the one for the root: it is reached — and raises — exactly when the root is a non-empty container;
when the root is a leaf or an empty container no `islice` call is made and `max_length` is never
looked at. -/
def traverseAny (pyRepr : Bool → Str → Str) (v : Variant) (maxLength maxString : Option Int)
    (h : Heap) (root : Nat) : Except Err (Option Node) :=
  match maxLength with
  | none => .ok (traverse ⟨pyRepr, v, none, maxString⟩ h root)
  | some m =>
    if m < 0 then
      if nonEmptyContainer h root then .error .valueError
      else .ok (traverse ⟨pyRepr, v, none, maxString⟩ h root)
    else .ok (traverse ⟨pyRepr, v, some m.toNat, maxString⟩ h root)

/-- `pretty_repr` with every option as Python receives it. -/
def prettyReprAny (cw : Char → Nat) (pyRepr : Bool → Str → Str) (v : Variant)
    (maxLength maxString : Option Int) (h : Heap) (root : Nat)
    (maxWidth indentSize : Int) (expandAll : Bool) : Except Err (Option Str) :=
  (traverseAny pyRepr v maxLength maxString h root).map fun r =>
    r.map fun n => render cw v n maxWidth indentSize expandAll

/-! ### `Pretty.__rich_measure__` and `Pretty.__rich_console__` (pretty.py:177-213) -/

/-- the line boundaries of `str.splitlines()`. -/
def isLineBreak (c : Char) : Bool :=
  c == '\n' || c == '\r' || c == '\x0b' || c == '\x0c' || c == '\x1c' || c == '\x1d' ||
  c == '\x1e' || c == '\u0085' || c == ' ' || c == ' '

/-- `str.splitlines()`: `cur` is the current line reversed; `afterCR`: the previous character was a
`\r` boundary, so a `\n` now belongs to it (`\r\n` is one boundary); no final empty line. -/
def splitLoop : Str → Str → Bool → List Str
  | [], cur, _ => if cur.isEmpty then [] else [cur.reverse]
  | c :: rest, cur, afterCR =>
    if afterCR && c == '\n' then splitLoop rest cur false
    else if isLineBreak c then cur.reverse :: splitLoop rest [] (c == '\r')
    else splitLoop rest (c :: cur) false

def splitlines (s : Str) : List Str := splitLoop s [] false

/-- `max(iterable)`: `ValueError` on an empty one. -/
def pyMax : List Nat → Except Err Nat
  | [] => .error .valueError
  | x :: xs => .ok (xs.foldl max x)

/-- `Pretty.__rich_measure__(console, max_width)`: the text width `w` of `Measurement(w, w)`.
`pretty_repr` is called with `max_width`, `indent_size`, `max_length`, `max_string` — and, in the code
as found, **without** `expand_all` (and without the margin). -/
def prettyMeasure (cw : Char → Nat) (v : Variant) (n : Node) (maxWidth indentSize : Int)
    (expandAll : Bool) : Except Err Nat :=
  let s := render cw v n maxWidth indentSize (if v.measureNoExpandAll then false else expandAll)
  pyMax ((splitlines s).map (cellLen cw))

/-- the options of `Pretty` that `__rich_console__` looks at. -/
structure PrettyOpts where
  indentSize : Int := 4
  justify : Option Str := none
  overflow : Option Str := some "crop".toList
  noWrap : Option Bool := some false
  indentGuides : Bool := false
  expandAll : Bool := false
  margin : Int := 0
  insertLine : Bool := false

/-- the fields of `ConsoleOptions` that `__rich_console__` looks at. -/
structure ConsoleOpts where
  maxWidth : Int
  justify : Option Str := none
  overflow : Option Str := none
  noWrap : Option Bool := none
  asciiOnly : Bool := false

/-- what `__rich_console__` yields: an optional blank first, then a `Text` with these attributes;
`guides = some k`: `with_indent_guides(k, style="repr.indent")` was applied to it. -/
structure ConsoleOut where
  blankFirst : Bool
  text : Str
  justify : Option Str
  overflow : Option Str
  noWrap : Bool
  guides : Option Int
deriving DecidableEq

/-- Python `a or b` on optional strings (`None` and `""` are falsy). -/
def strOr (a b : Option Str) : Option Str :=
  match a with
  | some s => if s.isEmpty then b else some s
  | none => b

/-- `pick_bool(a, b)`: the first non-`None` value, else `bool(b)`. -/
def pickBool (a b : Option Bool) : Bool :=
  match a with
  | some x => x
  | none => match b with
    | some y => y
    | none => false

/-- `strip_control_codes` applied by `Text.__init__` (text.py:139, control.py:8-14): backspace, vertical tab,
form feed and carriage return are removed (they can only come from a leaf whose `repr` contains them). -/
def stripControl (s : Str) : Str :=
  s.filter fun c => !(c.toNat == 8 || c.toNat == 11 || c.toNat == 12 || c.toNat == 13)

/-- `Pretty.__rich_console__(console, options)` on an already traversed object. -/
def prettyConsole (cw : Char → Nat) (v : Variant) (n : Node) (p : PrettyOpts) (o : ConsoleOpts) :
    ConsoleOut :=
  let s := render cw v n (o.maxWidth - p.margin) p.indentSize p.expandAll
  { blankFirst := p.insertLine && s.contains '\n',
    text := stripControl s,
    justify := strOr p.justify o.justify,
    overflow := strOr p.overflow o.overflow,
    noWrap := pickBool p.noWrap o.noWrap,
    guides := if p.indentGuides && !o.asciiOnly then some p.indentSize else none }

end RichModel.Pretty
