import RichModel.Model.Console
/-
`export_html(code_format=…)` with the format string *as a string* (property C15, deepening round 4):

  console.py export_html 1552, 1587-1595:
      render_code_format = CONSOLE_HTML_FORMAT if code_format is None else code_format
      …
      rendered_code = render_code_format.format(code=…, stylesheet=…, foreground=…, background=…)
      if clear:
          del self._record_buffer[:]
      return rendered_code

`str.format` is CPython's `MarkupIterator_next` / `parse_field` / `get_field_object`
(Objects/stringlib/unicode_format.h), read left to right, the first problem met raises:

  * literal text up to the next `{` or `}`; `{{` and `}}` are one literal brace;
  * a `}` that is not doubled                      -> ValueError ("Single '}' encountered in format string")
  * a `{` at the very end                          -> ValueError ("Single '{' encountered in format string")
  * inside a field: `{`                            -> ValueError ("unexpected '{' in field name")
                    end of string before `}`       -> ValueError ("expected '}' before end of string")
  * a field name that is empty or all ASCII digits -> IndexError (no positional arguments are passed)
  * any other name not among the four keywords     -> KeyError(name)
  * the field is replaced by the keyword's value, which is NOT scanned again.

Outside the modelled domain (answer `unmodelled`, never a default): a field with a conversion (`!`), a format
spec (`:`), an attribute or index lookup (`.`, `[`), a non-ASCII character in a field name (Unicode decimal
digits count as digits for CPython) and digit strings of more than 18 digits ("Too many decimal digits").

Import-free apart from `Model/Console`.
-/
namespace RichModel.ConsoleFormat
open RichModel RichModel.Console

/-- One parsed piece of a format string: a literal character (a doubled brace is one) or a replacement field. -/
inductive PItem where
  | lit (c : Char)
  | field (name : List Char)
deriving Repr, DecidableEq

/-- How the scan of the format string ended. -/
inductive Tail where
  | done
  /-- a brace problem: `ValueError` -/
  | valueError
  /-- a field with `!`, `:`, `.`, `[` or a non-ASCII character: outside the modelled domain -/
  | unmodelled
deriving Repr, DecidableEq

/-- Characters of a field that take the request out of the modelled domain. -/
def fieldSpecial (c : Char) : Bool :=
  c == '[' || c == '.' || c == ':' || c == '!' || decide (128 ≤ c.toNat)

/-- Scanner state: in literal text; just after a `{` met in literal text; just after a `}` met in literal text;
inside a replacement field whose name so far is `acc` reversed. -/
inductive Mode where
  | lit
  | opened
  | closed
  | field (acc : List Char)
deriving Repr, DecidableEq

/-- What one character inside a field does (`parse_field`). -/
inductive FieldAct where
  | close (name : List Char)
  | bad
  | unmodelled
  | more (acc : List Char)

def fieldStep (acc : List Char) (c : Char) : FieldAct :=
  if c = '}' then .close acc.reverse
  else if c = '{' then .bad
  else if fieldSpecial c then .unmodelled
  else .more (c :: acc)

/-- `MarkupIterator_next` + `parse_field`, left to right, one character at a time.  Returns the items parsed before
the scan stopped, and why it stopped. -/
def scan : Mode → List Char → List PItem × Tail
  | .lit, [] => ([], .done)
  | .lit, c :: r =>
    if c = '{' then scan .opened r
    else if c = '}' then scan .closed r
    else let s := scan .lit r; (.lit c :: s.1, s.2)
  | .opened, [] => ([], .valueError)
  | .opened, c :: r =>
    if c = '{' then let s := scan .lit r; (.lit '{' :: s.1, s.2)
    else
      match fieldStep [] c with
      | .close n => let s := scan .lit r; (.field n :: s.1, s.2)
      | .bad => ([], .valueError)
      | .unmodelled => ([], .unmodelled)
      | .more acc => scan (.field acc) r
  | .closed, [] => ([], .valueError)
  | .closed, c :: r =>
    if c = '}' then let s := scan .lit r; (.lit '}' :: s.1, s.2)
    else ([], .valueError)
  | .field _, [] => ([], .valueError)
  | .field acc, c :: r =>
    match fieldStep acc c with
    | .close n => let s := scan .lit r; (.field n :: s.1, s.2)
    | .bad => ([], .valueError)
    | .unmodelled => ([], .unmodelled)
    | .more acc => scan (.field acc) r

/-- The exceptions `str.format` can raise here. -/
inductive FmtErr where
  | valueError
  | keyError (name : List Char)
  | indexError
deriving Repr, DecidableEq

/-- Result of formatting. -/
inductive FmtRes where
  | ok (s : List Char)
  | error (e : FmtErr)
  | unmodelled
deriving Repr, DecidableEq

/-- The four keyword arguments `export_html` passes. -/
structure Vals where
  code : List Char
  stylesheet : List Char
  foreground : List Char
  background : List Char
deriving Repr, DecidableEq

/-- What a field name means (`get_field_object` with `args = ()` and the four keywords). -/
inductive Lookup where
  | value (s : List Char)
  | err (e : FmtErr)
  | unmodelled
deriving Repr, DecidableEq

def isAsciiDigit (c : Char) : Bool := decide ('0'.toNat ≤ c.toNat) && decide (c.toNat ≤ '9'.toNat)

def lookup (vals : Vals) (name : List Char) : Lookup :=
  if name.all isAsciiDigit then   -- also the empty name: automatic numbering, index 0
    if name.length ≤ 18 then .err .indexError else .unmodelled
  else if name = "code".toList then .value vals.code
  else if name = "stylesheet".toList then .value vals.stylesheet
  else if name = "foreground".toList then .value vals.foreground
  else if name = "background".toList then .value vals.background
  else .err (.keyError name)

/-- Fill the parsed items in, left to right; the first failing field decides, then the way the scan ended. -/
def fill (vals : Vals) : List PItem → Tail → FmtRes
  | [], .done => .ok []
  | [], .valueError => .error .valueError
  | [], .unmodelled => .unmodelled
  | .lit c :: r, t =>
    match fill vals r t with
    | .ok s => .ok (c :: s)
    | e => e
  | .field n :: r, t =>
    match lookup vals n with
    | .value v =>
      match fill vals r t with
      | .ok s => .ok (v ++ s)
      | e => e
    | .err e => .error e
    | .unmodelled => .unmodelled

/-- `fmt.format(code=…, stylesheet=…, foreground=…, background=…)`. -/
def formatStr (vals : Vals) (fmt : List Char) : FmtRes :=
  let s := scan .lit fmt
  fill vals s.1 s.2

/-- The parsed items as a template of `Model/Console` (`none`: some field is not one of the four names). -/
def toTemplate : List PItem → Option (List TItem)
  | [] => some []
  | .lit c :: r => (toTemplate r).map (TItem.lit [c] :: ·)
  | .field n :: r =>
    let item : Option TItem :=
      if n = "code".toList then some .code
      else if n = "stylesheet".toList then some .stylesheet
      else if n = "foreground".toList then some .foreground
      else if n = "background".toList then some .background
      else none
    match item, toTemplate r with
    | some i, some t => some (i :: t)
    | _, _ => none

/-- What `export_html` returns or raises with the format string `fmt` (`code_format=None` is the caller's
`CONSOLE_HTML_FORMAT`), the theme's two colours and the record. -/
def exportHtmlStr {σ : Type} [BEq σ] (v : Variant) (env : StyleEnv σ) (inline : Bool) (fmt fg bg : List Char)
    (record : List (Segment σ)) : FmtRes :=
  let p := exportHtmlParts v env inline record
  formatStr { code := flatFrags p.1, stylesheet := p.2, foreground := fg, background := bg } fmt

/-- What the call returns to its caller. -/
inductive OutS where
  | exported (s : List Char)
  | assertionError
  | raised (e : FmtErr)
  | unmodelled
deriving Repr, DecidableEq

/-- `export_html(clear=clr, inline_styles=inline, code_format=fmt, theme=…)` as a step on the console state:
`assert self.record` first; the record is cleared only *after* the format succeeded (console.py:1587-1595), so a
failing format leaves the record as it was. -/
def stepHtmlStr {σ : Type} [BEq σ] (v : Variant) (cfg : Config) (env : StyleEnv σ) (st : State σ) (clr inline : Bool)
    (fmt fg bg : List Char) : State σ × OutS :=
  if !cfg.record then (st, .assertionError)
  else
    match exportHtmlStr v env inline fmt fg bg st.record with
    | .ok s => ({ st with record := if clr then [] else st.record }, .exported s)
    | .error e => (st, .raised e)
    | .unmodelled => (st, .unmodelled)

end RichModel.ConsoleFormat
