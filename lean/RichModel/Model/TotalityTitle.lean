import RichModel.Model.Text
/-!
Model for property C14, deepening 4 — the callers of `Text.expand_tabs()` WITHOUT an argument on a `Text` the user built:

* `Rule.__rich_console__`  rich/rule.py:72-79    → `ruleTitlePrep`
* `Panel._title`           rich/panel.py:93-106  → `panelTitle`   (used by `__rich_console__` and `__rich_measure__`)
* `Text.with_indent_guides` rich/text.py:1092-1093 → `guidesPrep`  (first two statements)

`Text(..., tab_size=None)` is documented ("Number of spaces per tab, or None to use console.tab_size"); `expand_tabs()` with
no argument falls back to `self.tab_size` and, in rich 9.10.0 as found, then does `assert tab_size is not None`
(text.py:641-643): a title with `tab_size=None` that holds a tab raises `AssertionError` (finding C14-T1).

`expandTabsV tabAssert`: `tabAssert = true` is the code as found = C05's `Text.expandTabs` (which has the assertion branch);
`tabAssert = false` is the repair `if tab_size is None: tab_size = 8` (pending_fixes/C14-expand-tabs-tab-size-none-assertion.diff;
`expand_tabs`' own docstring: "Size of tabs. Defaults to 8.").  C05's / C08's definitions are used unchanged.

Import-free apart from `RichModel.Model.*`.
-/
namespace RichModel
namespace Totality
open RichModel.Text

variable {σ : Type}

/-- `Text.expand_tabs(tab_size)` (text.py:631-663) with the code variant of text.py:641-643. -/
def expandTabsV [BEq σ] (tabAssert : Bool) (v : Variant) (t : Text σ) (tabSize : Option Nat) : Except PyErr (Text σ) :=
  if tabAssert then t.expandTabs v tabSize
  else t.expandTabs v (some ((tabSize.orElse (fun _ => t.tabSize)).getD 8))

/-- `plain.replace("\n", " ")` -/
def nlToSpace (s : List Char) : List Char := s.map (fun c => if c == '\n' then ' ' else c)

/-- rule.py:72-79 for a `Text` title: `title_text.plain = title_text.plain.replace("\n", " ")`, `title_text.expand_tabs()`. -/
def ruleTitlePrep [BEq σ] (tabAssert : Bool) (v : Variant) (title : Text σ) : Except PyErr (Text σ) :=
  expandTabsV tabAssert v (title.setPlain (nlToSpace title.plain)) none

/-- `Panel._title` (panel.py:93-106) for a truthy `Text` title, starting from `self.title.copy()`. -/
def panelTitle [BEq σ] (tabAssert : Bool) (v : Variant) (title : Text σ) : Except PyErr (Text σ) :=
  let t0 := title.copy v
  let t1 : Text σ := { t0 with endStr := [] }
  let t2 := t1.setPlain (nlToSpace t1.plain)
  let t3 : Text σ := { t2 with noWrap := some true }
  expandTabsV tabAssert v t3 none >>= fun (t4 : Text σ) => .ok (t4.pad 1)

/-- `Text.with_indent_guides` (text.py:1092-1093): `text = self.copy()`, `text.expand_tabs()`. -/
def guidesPrep [BEq σ] (tabAssert : Bool) (v : Variant) (t : Text σ) : Except PyErr (Text σ) :=
  expandTabsV tabAssert v (t.copy v) none

end Totality
end RichModel
