/-
Shared data types for colours (rich/color.py, rich/color_triplet.py).  Import-free.
Functions over these types live in the files of the properties that own them
(Model/Color.lean for C18, Model/Style.lean for C06, ...).
-/
namespace RichModel

/-- `ColorType` (color.py:29): DEFAULT=0 STANDARD=1 EIGHT_BIT=2 TRUECOLOR=3 WINDOWS=4. -/
inductive ColorType where
  | default | standard | eightBit | truecolor | windows
deriving Repr, BEq, DecidableEq

def ColorType.toNat : ColorType → Nat
  | .default => 0 | .standard => 1 | .eightBit => 2 | .truecolor => 3 | .windows => 4

/-- `ColorSystem` (color.py:20): STANDARD=1 EIGHT_BIT=2 TRUECOLOR=3 WINDOWS=4. -/
inductive ColorSystem where
  | standard | eightBit | truecolor | windows
deriving Repr, BEq, DecidableEq

def ColorSystem.toNat : ColorSystem → Nat
  | .standard => 1 | .eightBit => 2 | .truecolor => 3 | .windows => 4

/-- `ColorTriplet(red, green, blue)`. -/
structure Triplet where
  red : Nat
  green : Nat
  blue : Nat
deriving Repr, BEq, DecidableEq

/-- `Color(name, type, number, triplet)` — a NamedTuple, so equality is field-wise *including the name*. -/
structure Color where
  name : List Char
  type : ColorType
  number : Option Nat := none
  triplet : Option Triplet := none
deriving Repr, BEq, DecidableEq

end RichModel
