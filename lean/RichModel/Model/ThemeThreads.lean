import RichModel.Model.Theme
/-
Second layer of the theme model (property C20, deepening round):

* flat atomic steps on a stack, including *outside mutation of the base theme's dict*
  (`ThemeStack.__init__` stores `theme.styles` itself, so `_entries[0]` aliases it; pushed
  entries are fresh dicts: `{**top, **theme.styles}` or `theme.styles.copy()`);
* several threads: `Console._theme_stack` is `self._thread_locals.theme_stack`, a field of a
  `threading.local` dataclass.  `threading.local` re-runs `__init__` in every new thread *with the
  arguments of the original construction*, i.e. with the very same `ThemeStack` object: the stack is
  shared by all threads (variant flag `shared = true`: what the code does, and what a `Live` /
  `Progress` refresh thread relies on to see the themes the main thread pushed — not a defect, and
  outside property C20, which is about single-threaded histories).  `shared = false` is a
  hypothetical variant with one `ThemeStack` per thread over the same base theme, kept to document
  the difference;
* `get_style`'s `style.copy() if style.link else style`: which results are fresh objects (new link id).
-/
namespace RichModel.Theme

variable {σ : Type}

/-- Outside code runs `base_theme.styles[k] = v`: the dict object is `_entries[0]`, and it is also the
dict `get` is bound to exactly when nothing is pushed. -/
def mutBase (k : Name) (v : σ) (st : Stack σ) : Stack σ :=
  match st.entries with
  | [] => st
  | b :: rest => ⟨dset b k v :: rest, if rest.isEmpty then dset st.bound k v else st.bound⟩

/-- Atomic steps; the caller wraps each one in its own `try`. -/
inductive FStep (σ : Type) where
  | push (t : Theme σ) (i : Bool)     -- console.push_theme(t, inherit=i)
  | pop                               -- console.pop_theme()
  | enter (t : Theme σ) (i : Bool)    -- console.use_theme(t, inherit=i).__enter__()
  | exit                              -- ThemeContext.__exit__(…)
  | setBase (k : Name) (v : σ)        -- base_theme.styles[k] = v   (outside the console)
  | setPushed                         -- some_pushed_theme.styles[k] = v: no entry references that dict

def FStep.isSetBase : FStep σ → Bool
  | .setBase _ _ => true
  | _ => false

/-- One step on one stack: new state and the exception raised, if any (state unchanged then). -/
def applyF (f : Bool) : FStep σ → Stack σ → Stack σ × Option Err
  | .push t i, st => match pushTheme st t i with | .ok s => (s, none) | .error e => (st, some e)
  | .pop, st => match popTheme st with | .ok s => (s, none) | .error e => (st, some e)
  | .enter t i, st => match ctxEnter f st t i with | .ok s => (s, none) | .error e => (st, some e)
  | .exit, st => match ctxExit st with | .ok s => (s, none) | .error e => (st, some e)
  | .setBase k v, st => (mutBase k v st, none)
  | .setPushed, st => (st, none)

def runF (f : Bool) : List (FStep σ) → Stack σ → Stack σ
  | [], st => st
  | s :: rest, st => runF f rest (applyF f s st).1

/-! ## threads -/

def setSlot (S : Nat → Stack σ) (i : Nat) (st : Stack σ) : Nat → Stack σ :=
  fun j => if j = i then st else S j

/-- Which stack thread `tid` works on. -/
def slotOf (shared : Bool) (tid : Nat) : Nat := if shared then 0 else tid

/-- One scheduled step of thread `tid`.  A base mutation hits the one dict object every stack has at
its bottom. -/
def stepMT (shared f : Bool) (S : Nat → Stack σ) (tid : Nat) (s : FStep σ) : (Nat → Stack σ) × Option Err :=
  match s with
  | .setBase k v => (fun j => mutBase k v (S j), none)
  | _ =>
    let r := applyF f s (S (slotOf shared tid))
    (setSlot S (slotOf shared tid) r.1, r.2)

def runMT (shared f : Bool) : List (Nat × FStep σ) → (Nat → Stack σ) → (Nat → Stack σ)
  | [], S => S
  | (tid, s) :: rest, S => runMT shared f rest (stepMT shared f S tid s).1

/-- as `runMT`, listing after every step the exception (if any) and the state (for the driver). -/
def traceMT (shared f : Bool) : List (Nat × FStep σ) → (Nat → Stack σ) → List (Option Err × (Nat → Stack σ))
  | [], _ => []
  | (tid, s) :: rest, S =>
    let r := stepMT shared f S tid s
    (r.2, r.1) :: traceMT shared f rest r.1

/-! ## `get_style`: which results are fresh objects -/

/-- `same s`: the object stored in the theme / returned by the (cached) parser / passed in;
`fresh s`: `s.copy()`, an equal style with a new link id. -/
inductive Got (σ : Type) where
  | same (s : σ)
  | fresh (s : σ)
deriving Repr, BEq, DecidableEq

def Got.val : Got σ → σ
  | .same s => s
  | .fresh s => s

/-- `return style.copy() if style.link else style` -/
def copyIfLink (linked : σ → Bool) (s : σ) : Got σ := if linked s then .fresh s else .same s

def getStyleObj1 (parse : Parse σ) (linked : σ → Bool) (st : Stack σ) : NS σ → Except GErr (Got σ)
  | .style s => .ok (.same s)
  | .str n =>
    match resolve parse st n with
    | .ok s => .ok (copyIfLink linked s)
    | .error .syntaxError => .error .missingStyle
    | .error .other => .error .other

/-- `Console.get_style` with object identity of the result made visible. -/
def getStyleObj (parse : Parse σ) (linked : σ → Bool) (st : Stack σ) (name : NS σ)
    (default : Option (NS σ)) : Except GErr (Got σ) :=
  match name with
  | .style s => .ok (.same s)
  | .str n =>
    match resolve parse st n with
    | .ok s => .ok (copyIfLink linked s)
    | .error .other => .error .other
    | .error .syntaxError =>
      match default with
      | none => .error .missingStyle
      | some d => getStyleObj1 parse linked st d

end RichModel.Theme
