import RichModel.Model.Live
/- Specification-level predicate for the `crop` / `ellipsis` screen theorems of C10 (deepening 4): `wfOps` of
`Model/Live.lean` without its clauses about frame heights.  Core Lean only. -/
namespace RichModel.Live
open RichModel

/-- `wfOps` with every clause about frame heights removed: operations belong to the kind and raise nothing, `stop` is
last, a transient display leaves one free row for the line feed of `stop`. -/
def wfOpsNoFit (cfg : Cfg) : St → List Op → Bool
  | _, [] => true
  | st, op :: rest =>
    if op = .stop then
      rest.isEmpty && (doStop cfg noFault st).err.isNone &&
        (!st.started || !cfg.transient || restoreCount cfg.blankFix (stopFrame cfg st).length + 1 ≤ cfg.height)
    else
      let r := step cfg noFault st op
      op.applies cfg.kind && r.err.isNone && wfOpsNoFit cfg r.st rest

/-- `wf` without the frame-height clauses. -/
def wfNoFit (cfg : Cfg) (ov : Overflow) (r0 : Frame) (h : List Op) : Bool :=
  cfg.plain && 1 ≤ cfg.height && wfOpsNoFit cfg (initSt ov r0) h

end RichModel.Live
