import RichModel.Model.Segment
/-
Model of the record / capture / export part of rich/console.py (property C15):

  Console._buffer / _buffer_index (thread local), _enter_buffer / _exit_buffer, _check_buffer,
  _render_buffer (record append, NO_COLOR, colour system None, control segments on a non-terminal),
  begin_capture / end_capture (+ Capture), line, control, bell, clear, show_cursor,
  export_text(clear, styles), export_html(clear, inline_styles, code_format, theme colours),
  Segment.filter_control, Segment.remove_color, the local `escape` of export_html.

Import-free apart from `Model/Segment` (for `Segment`, `simplify`).

Styles are opaque ids of a type `σ`.  Everything the code asks of a `Style` object is a field of
`StyleEnv` (a parameter of the model, with the contract "`style.render(text)` is an escape-code
wrapper `pre ++ text ++ post` around the unchanged text"):

  bool(style)                                   -> truthy
  style.render(text, color_system=cs, legacy_windows=lw)  (style.py:599-623)
        = text                 if text == "" or cs is None
        = pre ++ text ++ post  otherwise        -> pre, post      (console's colour system)
  style.render(text)  (defaults, export_text(styles=True))      -> preT, postT
  style.without_color                           -> withoutColor
  style.get_html_style(theme)                   -> htmlRule
  style.link                                    -> link

What a rendering is *made of* is kept (`Piece`, `Frag`): the string that reaches the file or is
returned by an export is the flattening (`Piece.chars`, `Frag.chars`) of these structured values;
the driver prints the flattening, and that is what is compared with real rich.
-/
namespace RichModel.Console
open RichModel

/-- Which variant of the code is modelled (see BUILDER_GUIDE "Genuine defects").
* `recordInRender = true`  : rich 9.10.0 as found — `_render_buffer` appends to the record, so `end_capture`
  (which calls `_render_buffer`) records text that never reaches the file (F17).
  `false` : repaired (fix 114bbe8) — the record append sits in `_check_buffer`, next to the file write.
* `mergeCtl = true` : the code before the `fix:` commit b97fe77 (F18): `Segment.simplify` merged a control
  segment with following text.  `false` : the code since that commit.
* `escapeHref = false` : rich 9.10.0 as found — `export_html` writes `style.link` into `href="…"` verbatim.
  `true` : repaired (fix e488480) — the link is passed through `html.escape(link, quote=True)`.
* `captureMarks = false` : rich 9.10.0 as found — `end_capture` renders and empties the *whole* thread buffer, so a nested
  capture block returns what was printed in the enclosing block before it began.
  `true` : repaired (fix 1202b8a) — `begin_capture` remembers `len(self._buffer)` (thread local stack) and `end_capture`
  renders and removes only `self._buffer[start:]`.
/repo contains the repaired value of every flag (`Variant.repaired`). -/
structure Variant where
  recordInRender : Bool
  mergeCtl : Bool
  escapeHref : Bool
  captureMarks : Bool
deriving Repr, DecidableEq

/-- rich 9.10.0 as found, after b97fe77 only (the name `today` dates from before fixes 114bbe8, e488480, 1202b8a). -/
def Variant.today : Variant := { recordInRender := true, mergeCtl := false, escapeHref := false, captureMarks := false }
/-- The minimally repaired code: what /repo contains now. -/
def Variant.repaired : Variant := { recordInRender := false, mergeCtl := false, escapeHref := true, captureMarks := true }

structure StyleEnv (σ : Type) where
  truthy : σ → Bool
  pre : σ → List Char
  post : σ → List Char
  preT : σ → List Char
  postT : σ → List Char
  withoutColor : σ → σ
  htmlRule : σ → List Char
  link : σ → Option (List Char)

/-- The console configuration the modelled code branches on. -/
structure Config where
  /-- `self.record` -/
  record : Bool
  /-- `self._color_system is None` -/
  colorNone : Bool
  /-- `self.is_terminal` -/
  isTerminal : Bool
  /-- `self._environ.get("TERM", "").lower() in ("dumb", "unknown")` -/
  termDumb : Bool
  /-- `self.no_color` -/
  noColor : Bool
  /-- `self.legacy_windows` -/
  legacyWindows : Bool
deriving Repr, DecidableEq

/-- `is_dumb_terminal` (console.py:676-685): `self.is_terminal and is_dumb`. -/
def Config.isDumbTerminal (c : Config) : Bool := c.isTerminal && c.termDumb

variable {σ : Type}

/-- `if style:` on an `Optional[Style]`. -/
def styleTruthy (env : StyleEnv σ) : Option σ → Bool
  | none => false
  | some s => env.truthy s

/-- One rendered segment: what `style.render(text)` (or the bare text) is made of. -/
structure Piece (σ : Type) where
  pre : List Char := []
  text : List Char
  post : List Char := []
  /-- the style whose wrapper was emitted (`none`: bare text) -/
  style : Option σ := none
  control : Bool := false
deriving Repr, BEq, DecidableEq

def Piece.chars (p : Piece σ) : List Char := p.pre ++ p.text ++ p.post

/-- The string a list of pieces denotes. -/
def flat (ps : List (Piece σ)) : List Char := ps.flatMap Piece.chars

/-- `Style.render` (style.py:599-623) with the escape codes as parameters. -/
def stylePiece (pre post : List Char) (plain : Bool) (s : σ) (text : List Char) (control : Bool) : Piece σ :=
  if text.isEmpty || plain then { text := text, control := control }
  else { pre := pre, text := text, post := post, style := some s, control := control }

/-- `Segment.remove_color` (segment.py:379-397; the `cache` dict is transparent). -/
def removeColor (env : StyleEnv σ) (segs : List (Segment σ)) : List (Segment σ) :=
  segs.map (fun seg =>
    match seg.style with
    | some s => if env.truthy s then { seg with style := some (env.withoutColor s) } else { seg with style := none }
    | none => { seg with style := none })

/-- The loop body of `_render_buffer` (console.py:1411-1423, as of fix 23674a1): a control segment is
dropped on a non-terminal whether or not it carries a style; otherwise `style.render` if `style` is truthy,
else the bare text. -/
def renderSeg (cfg : Config) (env : StyleEnv σ) (seg : Segment σ) : Option (Piece σ) :=
  if !cfg.isTerminal && seg.control then none
  else
    match seg.style with
    | some s =>
      if env.truthy s then some (stylePiece (env.pre s) (env.post s) cfg.colorNone s seg.text seg.control)
      else some { text := seg.text, control := seg.control }
    | none => some { text := seg.text, control := seg.control }

/-- `_render_buffer` without its record side effect (console.py:1392-1408). -/
def renderPieces (cfg : Config) (env : StyleEnv σ) (buffer : List (Segment σ)) : List (Piece σ) :=
  let buffer := if cfg.noColor && !cfg.colorNone then removeColor env buffer else buffer
  buffer.filterMap (renderSeg cfg env)

/-- Console state: the thread's buffer and nesting depth, the record, and what was written to the
file (one entry per `file.write`, in order). -/
structure State (σ : Type) where
  buffer : List (Segment σ) := []
  index : Int := 0
  record : List (Segment σ) := []
  file : List (List (Piece σ)) := []
  /-- `capture_starts` of the repaired variant (always `[]` in the as-found variant) -/
  marks : List Nat := []

/-- `_render_buffer` (console.py:1383-1408): returns the pieces and the new record. -/
def renderBuffer (v : Variant) (cfg : Config) (env : StyleEnv σ) (buffer record : List (Segment σ)) :
    List (Piece σ) × List (Segment σ) :=
  (renderPieces cfg env buffer, if v.recordInRender && cfg.record then record ++ buffer else record)

/-- `_check_buffer` (console.py:1357-1381), non-Jupyter branch. -/
def checkBuffer (v : Variant) (cfg : Config) (env : StyleEnv σ) (st : State σ) : State σ :=
  if st.index == 0 then
    let record := if !v.recordInRender && cfg.record then st.record ++ st.buffer else st.record
    let r := renderBuffer v cfg env st.buffer record
    { st with buffer := [], record := r.2,
              file := if (flat r.1).isEmpty then st.file else st.file ++ [r.1] }
  else st

/-- `self._buffer.append(Segment.control(str(control_codes))); self._check_buffer()` guarded by
`is_dumb_terminal` (console.py:1114-1122). -/
def control (v : Variant) (cfg : Config) (env : StyleEnv σ) (st : State σ) (codes : List Char) : State σ :=
  if !cfg.isDumbTerminal then
    checkBuffer v cfg env { st with buffer := st.buffer ++ [{ text := codes, style := none, control := true }] }
  else st

/-! ### exports -/

/-- `text.replace(c, r)` for a one-character pattern. -/
def replaceChar (c : Char) (r : List Char) (s : List Char) : List Char :=
  s.flatMap (fun x => if x == c then r else [x])

/-- `escape` local to `export_html` (console.py:1526-1528): three successive `str.replace`. -/
def escape (t : List Char) : List Char :=
  replaceChar '>' "&gt;".toList (replaceChar '<' "&lt;".toList (replaceChar '&' "&amp;".toList t))

/-- `html.escape(s, quote=True)` (used only by the repaired variant, for the `href` attribute). -/
def escapeAttr (t : List Char) : List Char :=
  replaceChar '\'' "&#x27;".toList (replaceChar '"' "&quot;".toList (escape t))

/-- `Segment.filter_control(segments)` with `is_control=False` (segment.py:107-127). -/
def filterControl (segs : List (Segment σ)) : List (Segment σ) := segs.filter (fun s => !s.control)

/-- `export_text(styles=False)`: texts of the non-control segments. -/
def exportPlain (record : List (Segment σ)) : List Char :=
  (record.filter (fun s => !s.control)).flatMap (·.text)

/-- `export_text(styles=True)`: `style.render(text) if style else text` over *all* segments. -/
def exportStyledPieces (env : StyleEnv σ) (record : List (Segment σ)) : List (Piece σ) :=
  record.map (fun seg =>
    match seg.style with
    | some s => if env.truthy s then stylePiece (env.preT s) (env.postT s) false s seg.text seg.control
                else { text := seg.text, control := seg.control }
    | none => { text := seg.text, control := seg.control })

/-- A fragment of the generated HTML: a tag `<body>` or already-escaped text. -/
inductive Frag where
  | tag (body : List Char)
  | text (escaped : List Char)
deriving Repr, BEq, DecidableEq

def Frag.chars : Frag → List Char
  | .tag b => '<' :: (b ++ ['>'])
  | .text t => t

def flatFrags (fs : List Frag) : List Char := fs.flatMap Frag.chars

/-- `if style.link:` — `None` and `""` are both false. -/
def linkOf (env : StyleEnv σ) (s : σ) : Option (List Char) :=
  match env.link s with
  | some l => if l.isEmpty then none else some l
  | none => none

def hrefOf (v : Variant) (l : List Char) : List Char := if v.escapeHref then escapeAttr l else l

def wrapLink (v : Variant) (env : StyleEnv σ) (s : σ) (fs : List Frag) : List Frag :=
  match linkOf env s with
  | some l => [Frag.tag ("a href=\"".toList ++ hrefOf v l ++ ['"'])] ++ fs ++ [Frag.tag "/a".toList]
  | none => fs

/-- `export_html(inline_styles=True)` loop body (console.py:1537-1543). -/
def htmlInlineSeg (v : Variant) (env : StyleEnv σ) (seg : Segment σ) : List Frag :=
  let t := [Frag.text (escape seg.text)]
  match seg.style with
  | some s =>
    if env.truthy s then
      let rule := env.htmlRule s
      let t := if !rule.isEmpty then
          [Frag.tag ("span style=\"".toList ++ rule ++ ['"'])] ++ t ++ [Frag.tag "/span".toList]
        else t
      wrapLink v env s t
    else t
  | none => t

/-- `styles.setdefault(rule, len(styles) + 1)` on an insertion-ordered dict. -/
def setDefault (styles : List (List Char × Nat)) (rule : List Char) : List (List Char × Nat) × Nat :=
  match styles.find? (fun p => p.1 == rule) with
  | some p => (styles, p.2)
  | none => (styles ++ [(rule, styles.length + 1)], styles.length + 1)

/-- `export_html(inline_styles=False)` loop (console.py:1545-1558): fragments and the `styles` dict. -/
def htmlClassLoop (v : Variant) (env : StyleEnv σ) :
    List (Segment σ) → List (List Char × Nat) → List Frag × List (List Char × Nat)
  | [], styles => ([], styles)
  | seg :: rest, styles =>
    let t := [Frag.text (escape seg.text)]
    let r : List Frag × List (List Char × Nat) :=
      match seg.style with
      | some s =>
        if env.truthy s then
          let rule := env.htmlRule s
          let r1 : List Frag × List (List Char × Nat) :=
            if !rule.isEmpty then
              let sd := setDefault styles rule
              ([Frag.tag ("span class=\"r".toList ++ (toString sd.2).toList ++ ['"'])] ++ t ++ [Frag.tag "/span".toList], sd.1)
            else (t, styles)
          (wrapLink v env s r1.1, r1.2)
        else (t, styles)
      | none => (t, styles)
    let r2 := htmlClassLoop v env rest r.2
    (r.1 ++ r2.1, r2.2)

def joinWith (sep : List Char) : List (List Char) → List Char
  | [] => []
  | [x] => x
  | x :: rest => x ++ sep ++ joinWith sep rest

/-- The stylesheet (console.py:1559-1564): `.r{n} {{rule}}` lines joined by newlines. -/
def stylesheetOf (styles : List (List Char × Nat)) : List Char :=
  joinWith ['\n'] ((styles.filter (fun p => !p.1.isEmpty)).map (fun p =>
    ".r".toList ++ (toString p.2).toList ++ " {".toList ++ p.1 ++ ['}']))

/-- The segments `export_html` iterates: `Segment.filter_control(Segment.simplify(record))`. -/
def htmlSegments [BEq σ] (v : Variant) (record : List (Segment σ)) : List (Segment σ) :=
  filterControl (simplify record v.mergeCtl)

/-- Fragments of `{code}` and the text of `{stylesheet}`. -/
def exportHtmlParts [BEq σ] (v : Variant) (env : StyleEnv σ) (inline : Bool) (record : List (Segment σ)) :
    List Frag × List Char :=
  if inline then ((htmlSegments v record).flatMap (htmlInlineSeg v env), [])
  else
    let r := htmlClassLoop v env (htmlSegments v record) []
    (r.1, stylesheetOf r.2)

/-- `code_format` as `string.Formatter().parse` sees it: literal text and the four named fields. -/
inductive TItem where
  | lit (s : List Char)
  | code
  | stylesheet
  | foreground
  | background
deriving Repr, DecidableEq

structure HtmlOpts where
  template : List TItem
  foreground : List Char
  background : List Char
deriving Repr, BEq, DecidableEq

/-- `render_code_format.format(code=…, stylesheet=…, foreground=…, background=…)`. -/
def formatTemplate (o : HtmlOpts) (code stylesheet : List Char) : List Char :=
  o.template.flatMap (fun
    | .lit s => s
    | .code => code
    | .stylesheet => stylesheet
    | .foreground => o.foreground
    | .background => o.background)

def exportHtml [BEq σ] (v : Variant) (env : StyleEnv σ) (inline : Bool) (o : HtmlOpts)
    (record : List (Segment σ)) : List Char :=
  let p := exportHtmlParts v env inline record
  formatTemplate o (flatFrags p.1) p.2

/-! ### operations -/

inductive Op (σ : Type) where
  /-- `print` / `log` / `rule` / `out` with at least one object: `with self:` … `self._buffer.extend(segs)`,
  where `segs` is what rendering (+ `split_and_crop_lines`) produced. -/
  | print (segs : List (Segment σ))
  /-- `line(count)`; `print()` and `log()` without objects are `line(1)`. -/
  | line (count : Nat)
  | control (codes : List Char)
  | bell
  | clear (home : Bool)
  | showCursor (visible : Bool)
  | beginCapture
  | endCapture
  /-- `with console:` … entered (`__enter__` = `_enter_buffer`, console.py:567-569) -/
  | enterBuffer
  /-- `with console:` … left (`__exit__` = `_exit_buffer`: depth - 1, then `_check_buffer`, console.py:571-574) -/
  | exitBuffer
  | exportText (clear styles : Bool)
  | exportHtml (clear inline : Bool) (opts : HtmlOpts)

/-- What an operation returns to its caller. -/
inductive Out where
  | none
  | captured (s : List Char)
  | exported (s : List Char)
  /-- `assert self.record` failed -/
  | assertionError
deriving Repr, BEq, DecidableEq

def step [BEq σ] (v : Variant) (cfg : Config) (env : StyleEnv σ) (st : State σ) : Op σ → State σ × Out
  | .print segs =>
    -- `with self:` = `_enter_buffer` … `_exit_buffer` (console.py:567-574, 1212-1241)
    let st := { st with index := st.index + 1 }
    let st := { st with buffer := st.buffer ++ segs }
    let st := { st with index := st.index - 1 }
    (checkBuffer v cfg env st, .none)
  | .line count =>
    if count != 0 then
      (checkBuffer v cfg env { st with buffer := st.buffer ++ [{ text := List.replicate count '\n', style := none, control := false }] }, .none)
    else (st, .none)
  | .control codes => (control v cfg env st codes, .none)
  | .bell => (control v cfg env st ['\x07'], .none)
  | .clear home => (control v cfg env st (if home then "\x1b[2J\x1b[H".toList else "\x1b[2J".toList), .none)
  | .showCursor sh =>
    if cfg.isTerminal && !cfg.legacyWindows then
      (control v cfg env st (if sh then "\x1b[?25h".toList else "\x1b[?25l".toList), .none)
    else (st, .none)
  | .beginCapture =>
    ({ st with index := st.index + 1,
               marks := if v.captureMarks then st.buffer.length :: st.marks else st.marks }, .none)
  | .endCapture =>
    -- console.py:602-611 (as found, `captureMarks = false`: `start = 0`)
    let start := if v.captureMarks then st.marks.headD 0 else 0
    let r := renderBuffer v cfg env (st.buffer.drop start) st.record
    let st := { st with buffer := st.buffer.take start, record := r.2,
                        marks := if v.captureMarks then st.marks.tail else st.marks }
    let st := { st with index := st.index - 1 }
    (checkBuffer v cfg env st, .captured (flat r.1))
  | .enterBuffer => ({ st with index := st.index + 1 }, .none)
  | .exitBuffer => (checkBuffer v cfg env { st with index := st.index - 1 }, .none)
  | .exportText clr styles =>
    if !cfg.record then (st, .assertionError)
    else
      let text := if styles then flat (exportStyledPieces env st.record) else exportPlain st.record
      ({ st with record := if clr then [] else st.record }, .exported text)
  | .exportHtml clr inline o =>
    if !cfg.record then (st, .assertionError)
    else
      let text := exportHtml v env inline o st.record
      ({ st with record := if clr then [] else st.record }, .exported text)

/-- Run a history; outputs in order. -/
def run [BEq σ] (v : Variant) (cfg : Config) (env : StyleEnv σ) : List (Op σ) → State σ → State σ × List Out
  | [], st => (st, [])
  | op :: rest, st =>
    let r := step v cfg env st op
    let r2 := run v cfg env rest r.1
    (r2.1, r.2 :: r2.2)

/-- Final state only. -/
def exec [BEq σ] (v : Variant) (cfg : Config) (env : StyleEnv σ) (ops : List (Op σ)) (st : State σ) : State σ :=
  (run v cfg env ops st).1

end RichModel.Console
