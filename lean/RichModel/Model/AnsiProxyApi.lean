import RichModel.Model.Ansi
/-!
The rest of `FileProxy`'s file-object surface (rich/file_proxy.py, `io.TextIOBase`):
* `write(x)` with `x` not a `str`: `TypeError` before anything else happens (file_proxy.py:29-30);
* `writelines(xs)` (inherited from `io.IOBase`): `for x in xs: self.write(x)`, an exception ends it;
* `flush()` as before.
Attribute passthrough (`__getattr__` → the wrapped file: `fileno`, `isatty`, `encoding` …) has no state in this model:
it is evaluated on real rich by the harness only.
-/
namespace RichModel
namespace Ansi

/-- an argument of `write`: a `str`, or any other object -/
inductive Arg where
  | str (s : List Char)
  | notStr
deriving Repr, DecidableEq

inductive ApiOp where
  | write (a : Arg)
  | flush
  | writelines (xs : List Arg)
deriving Repr, DecidableEq

inductive ApiEvent where
  | ev (e : Event)
  /-- `TypeError("write() argument must be str, not …")` left the call -/
  | typeError
deriving Repr, DecidableEq

/-- did this call of `write` raise? -/
def raisedIn : List ApiEvent → Bool
  | [] => false
  | .typeError :: _ => true
  | .ev (.raised _) :: _ => true
  | _ :: r => raisedIn r

def apiWrite (cfg : Cfg) (p : Proxy) : Arg → Proxy × List ApiEvent
  | .notStr => (p, [.typeError])
  | .str s => let r := p.write cfg s; (r.1, r.2.map .ev)

/-- `io.IOBase.writelines`: one `write` per element, in order; the first exception ends the call. -/
def apiWritelines (cfg : Cfg) : Proxy → List Arg → Proxy × List ApiEvent
  | p, [] => (p, [])
  | p, x :: xs =>
    let a := apiWrite cfg p x
    if raisedIn a.2 then a
    else
      let b := apiWritelines cfg a.1 xs
      (b.1, a.2 ++ b.2)

def apiStep (cfg : Cfg) (p : Proxy) : ApiOp → Proxy × List ApiEvent
  | .write a => apiWrite cfg p a
  | .flush => let r := p.flush cfg false; (r.1, r.2.map .ev)
  | .writelines xs => apiWritelines cfg p xs

def apiRun (cfg : Cfg) : Proxy → List ApiOp → Proxy × List ApiEvent
  | p, [] => (p, [])
  | p, op :: h =>
    let a := apiStep cfg p op
    let b := apiRun cfg a.1 h
    (b.1, a.2 ++ b.2)

/-- the `write` / `flush` history a history of API calls without non-`str` arguments amounts to -/
def flatOps : List ApiOp → List Op
  | [] => []
  | .write (.str s) :: h => .write s :: flatOps h
  | .write .notStr :: h => flatOps h
  | .flush :: h => .flush false :: flatOps h
  | .writelines xs :: h => (xs.filterMap fun | .str s => some (Op.write s) | .notStr => none) ++ flatOps h

def allStr : List ApiOp → Bool
  | [] => true
  | .write (.str _) :: h => allStr h
  | .write .notStr :: _ => false
  | .flush :: h => allStr h
  | .writelines xs :: h => xs.all (fun | .str _ => true | .notStr => false) && allStr h

end Ansi
end RichModel
