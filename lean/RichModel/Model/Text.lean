import RichModel.Model.Cells
import RichModel.Gen.TextTables
/-!
Model of `rich/text.py` (class `Span`, class `Text`) and `rich/control.py::strip_control_codes`.
Core Lean only (imports `Model/Cells` for `cell_len` / `set_cell_size` and the generated tables).

Conventions (see `TEXT_API.md` beside this file):
* `σ` is the type of style *names* (what Python stores in `Span.style` / `Text.style`); styles are
  opaque and compared with `==`.  What a style *means* never enters the model: `render` and the
  reference semantics speak of the **list of style names applied, in application order**
  (the free monoid), so "later spans win" and every reordering is visible.
* `Text.length` is the separately stored `_length`; `Text.plain` is `"".join(_text)` (the fragment
  list `_text` is abstracted to its concatenation).
* Offsets are `Int` wherever Python lets a negative number through.
* `Variant` carries one boolean per genuine defect of rich 9.10.0 found by the C05 check:
  `true` = the code as released, `false` = the minimally repaired code, which /repo contains now (`fix:` commits
  0149e10, ba4c9a6, 3a84457, b5c0e99, aad03fe, 9ca68f6; the former `pending_fixes/C05-*.diff`).  Two further
  defects are selected by an explicit first argument instead of a `Variant` field: `rstripEndW` (fix f5f2be9, C08's
  finding) and `splitW` (fix b61fef8, `Text.split` on a separator that overlaps itself); both are repaired in /repo.
-/
namespace RichModel

/-- Python exceptions the modelled code can raise. -/
inductive PyErr where
  | indexError | typeError | valueError | assertionError | zeroDivisionError | keyError | runtimeError
deriving Repr, BEq, DecidableEq

/-! ### Python sequence semantics used below -/
namespace Py

/-- Normalisation of one slice bound against a sequence of length `n` (step 1):
negative counts from the end, then clamp to `[0, n]`. -/
def clampIdx (n : Nat) (i : Int) : Nat :=
  if i < 0 then (i + n).toNat else min i.toNat n

/-- `l[a:b]` -/
def slice {α : Type} (l : List α) (a b : Int) : List α :=
  let a' := clampIdx l.length a
  let b' := clampIdx l.length b
  (l.drop a').take (b' - a')

/-- `l[:b]` -/
def sliceTo {α : Type} (l : List α) (b : Int) : List α := l.take (clampIdx l.length b)

/-- `slice(a, b).indices(n)` for step 1 (`None` bounds as `none`). -/
def sliceIndices (n : Nat) (a b : Option Int) : Nat × Nat :=
  ((a.map (clampIdx n)).getD 0, (b.map (clampIdx n)).getD n)

/-- Stable insertion sort, ascending by `key` (`sorted(xs, key=key)` / `list.sort(key=key)`). -/
def insertByKey {α : Type} (key : α → Int) (e : α) : List α → List α
  | [] => [e]
  | x :: xs => if key e ≤ key x then e :: x :: xs else x :: insertByKey key e xs

def sortByKey {α : Type} (key : α → Int) (l : List α) : List α := l.foldr (insertByKey key) []

/-- `sorted(xs, key=key, reverse=True)`: descending, equal keys keep their original order. -/
def sortByKeyDesc {α : Type} (key : α → Int) (l : List α) : List α :=
  sortByKey (fun x => - key x) l

end Py

/-! ### control.py -/

/-- `strip_control_codes` : `text.translate({8: None, 11: None, 12: None, 13: None})`, the code list
being the one translated from `rich/control.py` on this run. -/
def isStripCode (c : Char) : Bool := Gen.stripControlCodes.contains c.toNat

def stripControl (s : List Char) : List Char := s.filter (fun c => !isStripCode c)

/-- `str.isspace()` of the running Python (also `\s` and `str.rstrip()`), generated table. -/
def pyIsSpace (c : Char) : Bool := Gen.pyWhitespace.contains c.toNat

/-- `str.rstrip()` -/
def pyRstrip (s : List Char) : List Char := (s.reverse.dropWhile pyIsSpace).reverse

/-- `len(_re_whitespace.search(s).group(0))` for `\s+$`, 0 when there is no match. -/
def trailingSpaceCount (s : List Char) : Nat := (s.reverse.takeWhile pyIsSpace).length

/-! ### Span -/

structure Span (σ : Type) where
  start : Int
  stop : Int          -- Python's `end`
  style : σ
deriving Repr, BEq, DecidableEq

namespace Span
variable {σ : Type}

/-- `Span.__bool__` -/
def nonEmpty (sp : Span σ) : Bool := sp.stop > sp.start

/-- `Span.split(offset)` (text.py:61-72) -/
def split (sp : Span σ) (offset : Int) : Span σ × Option (Span σ) :=
  if offset < sp.start then (sp, none)
  else if offset ≥ sp.stop then (sp, none)
  else
    let span1 : Span σ := ⟨sp.start, min sp.stop offset, sp.style⟩
    (span1, some ⟨span1.stop, sp.stop, sp.style⟩)

/-- `Span.move(offset)` -/
def move (sp : Span σ) (offset : Int) : Span σ := ⟨sp.start + offset, sp.stop + offset, sp.style⟩

/-- The clipping used by `_trim_spans` and `right_crop`:
`span if span.end < max_offset else Span(span.start, min(max_offset, span.end), span.style)`. -/
def clip (sp : Span σ) (maxOffset : Int) : Span σ :=
  if sp.stop < maxOffset then sp else ⟨sp.start, min maxOffset sp.stop, sp.style⟩

/-- does the span cover character position `i`? -/
def covers (sp : Span σ) (i : Nat) : Bool := decide (sp.start ≤ (i : Int)) && decide ((i : Int) < sp.stop)

end Span

/-- `[clip(span) for span in spans if span.start < max_offset]` -/
def trimSpansTo {σ : Type} (spans : List (Span σ)) (maxOffset : Int) : List (Span σ) :=
  (spans.filter (fun sp => sp.start < maxOffset)).map (fun sp => sp.clip maxOffset)

/-! ### Text -/

inductive Justify where | default | left | center | right | full
deriving Repr, BEq, DecidableEq

inductive Overflow where | fold | crop | ellipsis | ignore
deriving Repr, BEq, DecidableEq

inductive AlignMethod where | left | center | right
deriving Repr, BEq, DecidableEq

structure Text (σ : Type) where
  plain : List Char
  /-- `_length`, maintained separately by every mutator -/
  length : Int
  spans : List (Span σ)
  style : σ
  justify : Option Justify := none
  overflow : Option Overflow := none
  noWrap : Option Bool := none
  endStr : List Char := ['\n']
  tabSize : Option Nat := some 8
deriving Repr, BEq, DecidableEq

/-- One flag per genuine defect (true = rich 9.10.0 as released). -/
structure Variant where
  /-- F1: `Text.__init__` sets `_length = len(text)` before the control codes are stripped. -/
  ctorLen : Bool
  /-- `right_crop(amount)` uses `plain[:-amount]` and `_length -= amount`: `amount = 0` erases the text,
  `amount > len` drives `_length` negative. -/
  cropEnds : Bool
  /-- `stylize` with a negative `start` before the beginning stores a span with a negative start
  (`render` then repeats characters or raises). -/
  stylizeNeg : Bool
  /-- `Text.__getitem__(int)` drops the base style, and for a negative index every span. -/
  getitem : Bool
  /-- `divide` keys its `order` dict by span *value*: equal spans alias and styles are re-ordered. -/
  divideOrder : Bool
  /-- `align` pads by a *negative* excess when the text stays wider than the width (overflow "ignore", or an
  ellipsis in 0 cells): `pad_left(negative)` leaves the characters and shifts every span. -/
  alignNeg : Bool
deriving Repr, BEq, DecidableEq

def Variant.released : Variant := ⟨true, true, true, true, true, true⟩
def Variant.repaired : Variant := ⟨false, false, false, false, false, false⟩

namespace Text
variable {σ : Type}

/-- `Text.__init__` (text.py:127-147). -/
def new (v : Variant) (text : List Char) (style : σ) (spans : List (Span σ) := [])
    (justify : Option Justify := none) (overflow : Option Overflow := none)
    (noWrap : Option Bool := none) (endStr : List Char := ['\n']) (tabSize : Option Nat := some 8) : Text σ :=
  let stripped := stripControl text
  { plain := stripped
    length := if v.ctorLen then (text.length : Int) else (stripped.length : Int)
    spans := spans, style := style, justify := justify, overflow := overflow
    noWrap := noWrap, endStr := endStr, tabSize := tabSize }

/-- `_trim_spans` -/
def trimSpans (t : Text σ) : Text σ :=
  { t with spans := trimSpansTo t.spans (t.plain.length : Int) }

/-- the `plain` setter (text.py:312-320) -/
def setPlain (t : Text σ) (newText : List Char) : Text σ :=
  if newText != t.plain then
    let t1 : Text σ := { t with plain := newText, length := (newText.length : Int) }
    if t.length > t1.length then t1.trimSpans else t1
  else t

/-- `blank_copy` -/
def blankCopy (v : Variant) (t : Text σ) : Text σ :=
  new v [] t.style [] t.justify t.overflow t.noWrap t.endStr t.tabSize

/-- `copy` -/
def copy (v : Variant) (t : Text σ) : Text σ :=
  { new v t.plain t.style [] t.justify t.overflow t.noWrap t.endStr t.tabSize with spans := t.spans }

/-- `stylize(style, start=0, end=None)` (text.py:358-379) -/
def stylize (v : Variant) (t : Text σ) (style : σ) (start : Int := 0) (stop : Option Int := none) : Text σ :=
  let length := t.length
  let start := if start < 0 then (if v.stylizeNeg then length + start else max 0 (length + start)) else start
  let stop := stop.getD length
  let stop := if stop < 0 then length + stop else stop
  if start ≥ length || stop ≤ start then t
  else { t with spans := t.spans ++ [⟨start, min length stop, style⟩] }

/-- `copy_styles`, and `highlight_regex` / `highlight_words` with the regex matches given as the
spans they append. -/
def addSpans (t : Text σ) (spans : List (Span σ)) : Text σ := { t with spans := t.spans ++ spans }

def copyStyles (t u : Text σ) : Text σ := t.addSpans u.spans

/-- `append(str, style)` (text.py:781-789) -/
def appendStr (t : Text σ) (text : List Char) (style : Option σ := none) : Text σ :=
  if text.length != 0 then
    let text' := stripControl text
    let offset := t.length
    let n : Int := text'.length
    { t with
      plain := t.plain ++ text'
      spans := match style with
        | some st => t.spans ++ [⟨offset, offset + n, st⟩]
        | none => t.spans
      length := t.length + n }
  else t

/-- `append_text(text)` (text.py:809-826) -/
def appendText (t u : Text σ) : Text σ :=
  let tl := t.length
  { t with
    plain := t.plain ++ u.plain
    spans := t.spans ++ [⟨tl, tl + u.length, u.style⟩] ++ u.spans.map (fun sp => sp.move tl)
    length := t.length + u.length }

/-- `append(Text)` (text.py:790-806): as `append_text`, guarded by `if len(text)`. -/
def appendT (t u : Text σ) : Text σ := if u.length != 0 then t.appendText u else t

/-- `append(Text, style)` with a style raises `ValueError` (when `len(text)` is non-zero). -/
def appendTStyled (t u : Text σ) (style : Option σ) : Except PyErr (Text σ) :=
  match style with
  | none => .ok (t.appendT u)
  | some _ => if u.length != 0 then .error .valueError else .ok t

/-- `append_tokens(tokens)` (text.py:828-847): no control stripping here. -/
def appendTokens (t : Text σ) (tokens : List (List Char × Option σ)) : Text σ :=
  let r := tokens.foldl (fun (acc : List Char × List (Span σ) × Int) tok =>
    let (pl, sps, offset) := acc
    let n : Int := tok.1.length
    (pl ++ tok.1,
     (match tok.2 with | some st => sps ++ [⟨offset, offset + n, st⟩] | none => sps),
     offset + n)) (t.plain, t.spans, t.length)
  { t with plain := r.1, spans := r.2.1, length := r.2.2 }

/-- one positional argument of `Text.assemble` -/
inductive Part (σ : Type) where
  | str (s : List Char)
  | txt (u : Text σ)
  | pair (s : List Char) (style : Option σ)

def appendPart (t : Text σ) : Part σ → Text σ
  | .str s => t.appendStr s none
  | .txt u => t.appendT u
  | .pair s st => t.appendStr s st

/-- `Text.assemble(*parts, style=…, …)` -/
def assemble (v : Variant) (parts : List (Part σ)) (style : σ)
    (justify : Option Justify := none) (overflow : Option Overflow := none)
    (noWrap : Option Bool := none) (endStr : List Char := ['\n']) (tabSize : Option Nat := some 8) : Text σ :=
  parts.foldl appendPart (new v [] style [] justify overflow noWrap endStr tabSize)

/-- the sequence `iter_text()` of `join` -/
def joinSeq (sep : Text σ) : List (Text σ) → List (Text σ)
  | [] => []
  | [x] => [x]
  | x :: y :: rest => if sep.plain.isEmpty then x :: joinSeq sep (y :: rest) else x :: sep :: joinSeq sep (y :: rest)

/-- `sep.join(lines)` (text.py:588-625) -/
def join (v : Variant) (sep : Text σ) (lines : List (Text σ)) : Text σ :=
  let r := (joinSeq sep lines).foldl (fun (acc : List Char × List (Span σ) × Int) (text : Text σ) =>
    let (pl, sps, offset) := acc
    (pl ++ text.plain,
     sps ++ [⟨offset, offset + text.length, text.style⟩] ++ text.spans.map (fun sp => sp.move offset),
     offset + text.length)) (([] : List Char), ([] : List (Span σ)), (0 : Int))
  { sep.blankCopy v with plain := r.1, spans := r.2.1, length := r.2.2 }

/-! #### divide -/

/-- `zip(divide_offsets, divide_offsets[1:])` with `divide_offsets = [0, *offsets, len(text)]` -/
def lineRanges (offsets : List Nat) (textLength : Nat) : List (Int × Int) :=
  let d : List Int := (0 :: offsets ++ [textLength]).map Int.ofNat
  d.zip d.tail

/-- the freshly constructed lines of `divide` (text.py:923-931) -/
def newLines (v : Variant) (t : Text σ) (ranges : List (Int × Int)) : List (Text σ) :=
  ranges.map (fun r => new v (Py.slice t.plain r.1 r.2) t.style [] t.justify t.overflow)

/-- The `while span_stack[position].start < end` loop for one line, repaired variant: stack entries
carry the index of the span of `self._spans` they stem from.
`todo` is `span_stack[0..position]` reversed (head = `span_stack[position]`), `done` is
`span_stack[position+1..]` (remainders pushed while this line is processed), `acc` the line's spans. -/
def divLineLoop (lineStart lineEnd : Int) :
    List (Nat × Span σ) → List (Nat × Span σ) → List (Nat × Span σ) →
    List (Nat × Span σ) × List (Nat × Span σ) × List (Nat × Span σ)
  | [], done, acc => ([], done, acc)
  | (i, sp) :: rest, done, acc =>
    if sp.start < lineEnd then
      let (add, rem) := sp.split lineEnd
      let done' := match rem with
        | some r => if r.nonEmpty then done ++ [(i, r)] else done
        | none => done
      divLineLoop lineStart lineEnd rest done' (acc ++ [(i, ⟨add.start - lineStart, add.stop - lineStart, add.style⟩)])
    else ((i, sp) :: rest, done, acc)

/-- the `for line, (start, end) in zip(new_lines, line_ranges)` loop, repaired variant -/
def divLines : List (Text σ × Int × Int) → List (Nat × Span σ) → List (Text σ)
  | [], _ => []
  | (line, s, e) :: rest, todo =>
    if todo.isEmpty then line :: rest.map (·.1)
    else
      let (todo', done, acc) := divLineLoop s e todo [] []
      { line with spans := (Py.sortByKey (fun p => (p.1 : Int)) acc).map (·.2) } :: divLines rest (done.reverse ++ todo')

/-- `order` dict of the released `divide`: association list keyed by span *value*, last write wins. -/
def dictSet (d : List (Span σ × Nat)) [BEq σ] (k : Span σ) (val : Nat) : List (Span σ × Nat) :=
  if d.any (fun p => p.1 == k) then d.map (fun p => if p.1 == k then (k, val) else p) else d ++ [(k, val)]

def dictGet (d : List (Span σ × Nat)) [BEq σ] (k : Span σ) : Option Nat :=
  (d.find? (fun p => p.1 == k)).map (·.2)

/-- one line of the released `divide`; `none` stands for `KeyError` (not reachable: every span on
the stack was entered in `order`). -/
def divLineLoopOld [BEq σ] (lineStart lineEnd : Int) :
    List (Span σ) → List (Span σ) → List (Span σ) → List (Span σ × Nat) →
    Option (List (Span σ) × List (Span σ) × List (Span σ) × List (Span σ × Nat))
  | [], done, acc, ord => some ([], done, acc, ord)
  | sp :: rest, done, acc, ord =>
    if sp.start < lineEnd then
      match dictGet ord sp with
      | none => none
      | some k =>
        let (add, rem) := sp.split lineEnd
        let (done', ord1) := match rem with
          | some r => if r.nonEmpty then (done ++ [r], dictSet ord r k) else (done, ord)
          | none => (done, ord)
        match dictGet ord1 sp with
        | none => none
        | some k2 =>
          let lineSpan : Span σ := ⟨add.start - lineStart, add.stop - lineStart, add.style⟩
          divLineLoopOld lineStart lineEnd rest done' (acc ++ [lineSpan]) (dictSet ord1 lineSpan k2)
    else some (sp :: rest, done, acc, ord)

def divLinesOld [BEq σ] : List (Text σ × Int × Int) → List (Span σ) → List (Span σ × Nat) → Option (List (Text σ))
  | [], _, _ => some []
  | (line, s, e) :: rest, todo, ord =>
    if todo.isEmpty then some (line :: rest.map (·.1))
    else
      match divLineLoopOld s e todo [] [] ord with
      | none => none
      | some (todo', done, acc, ord') =>
        match acc.mapM (fun sp => (dictGet ord' sp).map (fun k => ((k : Int), sp))) with
        | none => none
        | some keyed =>
          match divLinesOld rest (done.reverse ++ todo') ord' with
          | none => none
          | some tl => some ({ line with spans := (Py.sortByKey (·.1) keyed).map (·.2) } :: tl)

/-- `divide(offsets)` (text.py:901-962).  Offsets are naturals here (a negative offset is outside
the modelled domain). -/
def divide [BEq σ] (v : Variant) (t : Text σ) (offsets : List Nat) : Except PyErr (List (Text σ)) :=
  if offsets.isEmpty then .ok [t.copy v]
  else
    let ranges := lineRanges offsets t.plain.length
    let lines := newLines v t ranges
    if t.spans.isEmpty then .ok lines
    else
      let work := lines.zip ranges
      if v.divideOrder then
        let ord := t.spans.zipIdx.foldl (fun d p => dictSet d p.1 p.2) []
        let stack := Py.sortByKeyDesc (fun (sp : Span σ) => sp.start) t.spans
        match divLinesOld work stack.reverse ord with
        | some r => .ok r
        | none => .error .keyError
      else
        let stack := Py.sortByKeyDesc (fun (p : Nat × Span σ) => p.2.start) (t.spans.zipIdx.map (fun p => (p.2, p.1)))
        .ok (divLines work stack.reverse)

/-- `(pos, end)` of the non-overlapping leftmost occurrences of `sep` (`re.finditer(re.escape(sep), text)`). -/
def findAllAux (sep : List Char) : List Char → Nat → Nat → List (Nat × Nat)
  | [], _, _ => []
  | c :: rest, pos, skip =>
    if skip > 0 then findAllAux sep rest (pos + 1) (skip - 1)
    else if sep.isPrefixOf (c :: rest) then (pos, pos + sep.length) :: findAllAux sep rest (pos + 1) (sep.length - 1)
    else findAllAux sep rest (pos + 1) 0

def findAll (sep text : List Char) : List (Nat × Nat) := findAllAux sep text 0 0

/-- `split(separator, include_separator, allow_blank)` (text.py:857-899) -/
def split [BEq σ] (v : Variant) (t : Text σ) (sep : List Char := ['\n'])
    (includeSeparator : Bool := false) (allowBlank : Bool := false) : Except PyErr (List (Text σ)) :=
  if sep.isEmpty then .error .assertionError
  else
    let text := t.plain
    let ms := findAll sep text
    if ms.isEmpty then .ok [t.copy v]
    else do
      let lines ←
        if includeSeparator then t.divide v (ms.map (·.2))
        else do
          let ls ← t.divide v (ms.flatMap (fun m => [m.1, m.2]))
          pure (ls.filter (fun line => line.plain != sep))
      if !allowBlank && sep.isSuffixOf text then pure lines.dropLast else pure lines

/-- `text[i]` for an `int` (text.py:181-195).  `null` is the style `""` a `Text` gets by default. -/
def getItem (v : Variant) (null : σ) (t : Text σ) (i : Int) : Except PyErr (Text σ) :=
  let n : Int := t.plain.length
  if i ≥ n || i < -n then .error .indexError
  else
    let idx : Int := if i < 0 then i + n else i
    let ch := t.plain.getD idx.toNat ' '
    if v.getitem then
      .ok (new v [ch] null
        ((t.spans.filter (fun sp => decide (sp.stop > i) && decide (i ≥ sp.start))).map (fun sp => ⟨0, 1, sp.style⟩))
        none none none [])
    else
      .ok (new v [ch] t.style
        ((t.spans.filter (fun sp => decide (sp.stop > idx) && decide (idx ≥ sp.start))).map (fun sp => ⟨0, 1, sp.style⟩))
        none none none [])

/-- `text[a:b]` (step 1 / None): `self.divide([start, stop])[1]` -/
def getSlice [BEq σ] (v : Variant) (t : Text σ) (a b : Option Int) : Except PyErr (Text σ) := do
  let (s, e) := Py.sliceIndices t.plain.length a b
  let lines ← t.divide v [s, e]
  match lines with
  | _ :: l :: _ => pure l
  | _ => throw .indexError

/-! #### padding, cropping -/

/-- `pad_left(count, character)`; `character * count` is empty for a negative count. -/
def padLeft (t : Text σ) (count : Int) (ch : Char := ' ') : Text σ :=
  if count != 0 then
    let t1 := t.setPlain (List.replicate count.toNat ch ++ t.plain)
    { t1 with spans := t1.spans.map (fun sp => sp.move count) }
  else t

def padRight (t : Text σ) (count : Int) (ch : Char := ' ') : Text σ :=
  if count != 0 then t.setPlain (t.plain ++ List.replicate count.toNat ch) else t

def pad (t : Text σ) (count : Int) (ch : Char := ' ') : Text σ :=
  if count != 0 then
    let p := List.replicate count.toNat ch
    let t1 := t.setPlain (p ++ t.plain ++ p)
    { t1 with spans := t1.spans.map (fun sp => sp.move count) }
  else t

/-- `right_crop(amount)` (text.py:964-978) -/
def rightCrop (v : Variant) (t : Text σ) (amount : Int := 1) : Text σ :=
  if v.cropEnds then
    let maxOffset : Int := (t.plain.length : Int) - amount
    { t with
      spans := trimSpansTo t.spans maxOffset
      plain := Py.sliceTo t.plain (-amount)
      length := t.length - amount }
  else
    let maxOffset : Int := max 0 ((t.plain.length : Int) - amount)
    { t with
      spans := trimSpansTo t.spans maxOffset
      plain := Py.sliceTo t.plain maxOffset
      length := maxOffset }

/-- `set_length(new_length)` -/
def setLength (v : Variant) (t : Text σ) (newLength : Int) : Text σ :=
  let length := t.length
  if length != newLength then
    if length < newLength then t.padRight (newLength - length) else t.rightCrop v (length - newLength)
  else t

/-- `rstrip()` -/
def rstrip (t : Text σ) : Text σ := t.setPlain (pyRstrip t.plain)

/-- `rstrip_end(size)` -/
def rstripEnd (v : Variant) (t : Text σ) (size : Int) : Text σ :=
  let textLength := t.length
  if textLength > size then
    let excess := textLength - size
    let ws := trailingSpaceCount t.plain
    if ws != 0 then t.rightCrop v (min (ws : Int) excess) else t
  else t

/-- `rstrip_end(size)` with the repair of fix f5f2be9 (the former `pending_fixes/C08-rstrip-end-counts-cells.diff`) as a variant flag.
`chars = true` is rich 9.10.0 as found (before fix f5f2be9): `text_length = len(self)` (characters) is compared with the *cell* width `size`;
`chars = false` is the repaired code, which /repo contains now: `text_length = cell_len(self.plain)`.
(The flag is an explicit argument rather than a seventh field of `Variant`: `Variant`'s constructor and
`rstripEnd`'s signature are used as they are by the word-wrap model; `rstripEndW true cw v = rstripEnd v`.) -/
def rstripEndW (chars : Bool) (cw : Char → Nat) (v : Variant) (t : Text σ) (size : Int) : Text σ :=
  let textLength : Int := if chars then t.length else (cellLen cw t.plain : Int)
  if textLength > size then
    let excess := textLength - size
    let ws := trailingSpaceCount t.plain
    if ws != 0 then t.rightCrop v (min (ws : Int) excess) else t
  else t

theorem rstripEndW_true (cw : Char → Nat) (v : Variant) (t : Text σ) (size : Int) :
    rstripEndW true cw v t size = rstripEnd v t size := rfl

/-- `set_cell_size(text, total)` with an `int` total that may be negative (`max_width - 1`). -/
def setCellSizeI (cw : Char → Nat) (text : List Char) (total : Int) : List Char :=
  let cellSize : Int := cellLen cw text
  if cellSize == total then text
  else if cellSize < total then text ++ List.replicate (total - cellSize).toNat ' '
  else
    let sizes := text.map cw
    let (remaining, excess) := popLoop sizes.reverse (cellSize - total)
    let text' := text.take remaining.length
    if excess == -1 then text' ++ [' '] else text'

/-- `truncate(max_width, overflow=None, pad=False)` (text.py:661-686) -/
def truncate (cw : Char → Nat) (t : Text σ) (maxWidth : Int) (overflow : Option Overflow := none)
    (pad : Bool := false) : Text σ :=
  let ov := ((overflow.orElse (fun _ => t.overflow)).getD Overflow.fold)
  if ov != Overflow.ignore then
    let length : Int := cellLen cw t.plain
    let t1 :=
      if length > maxWidth then
        if ov == Overflow.ellipsis then t.setPlain (setCellSizeI cw t.plain (maxWidth - 1) ++ ['…'])
        else t.setPlain (setCellSizeI cw t.plain maxWidth)
      else t
    if pad && length < maxWidth then
      let p := t1.plain ++ List.replicate (maxWidth - length).toNat ' '
      { t1 with plain := p, length := (p.length : Int) }
    else t1
  else t

/-- `align(align, width, character)` (text.py:745-763) -/
def align (v : Variant) (cw : Char → Nat) (t : Text σ) (method : AlignMethod) (width : Int) (ch : Char := ' ') : Text σ :=
  let t1 := t.truncate cw width
  let excess : Int := width - (cellLen cw t1.plain : Int)
  if (if v.alignNeg then excess != 0 else excess > 0) then
    match method with
    | .left => t1.padRight excess ch
    | .center =>
      let left := excess / 2
      (t1.padLeft left ch).padRight (excess - left) ch
    | .right => t1.padLeft excess ch
  else t1

/-! #### expand_tabs -/

/-- the body of `for part in parts` -/
def expandPart (tabSize : Nat) (baseStyle : σ) (acc : Text σ × Int) (part : Text σ) : Text σ × Int :=
  let (result, pos) := acc
  if ['\t'].isSuffixOf part.plain then
    let part' : Text σ := { part with plain := part.plain.dropLast ++ [' '] }
    let result := result.appendT part'
    let pos := pos + part'.length
    let spaces : Int := (tabSize : Int) - ((pos - 1) % (tabSize : Int)) - 1
    if spaces != 0 then (result.appendStr (List.replicate spaces.toNat ' ') (some baseStyle), pos + spaces)
    else (result, pos)
  else (result.appendT part, pos)

/-- `expand_tabs(tab_size=None)` (text.py:627-659) -/
def expandTabs [BEq σ] (v : Variant) (t : Text σ) (tabSize : Option Nat := none) : Except PyErr (Text σ) :=
  if !t.plain.contains '\t' then .ok t
  else
    match tabSize.orElse (fun _ => t.tabSize) with
    | none => .error .assertionError
    | some 0 => .error .zeroDivisionError
    | some ts => do
      let lines ← t.split v ['\n'] true
      let r ← lines.foldlM (fun (acc : Text σ × Int) line => do
        let parts ← line.split v ['\t'] true
        pure (parts.foldl (expandPart ts t.style) acc)) (t.blankCopy v, (0 : Int))
      pure { t with plain := r.1.plain, length := (r.1.plain.length : Int), spans := r.1.spans }

/-! #### split with the `endswith` repair, slices with a step, and the remaining public helpers -/

/-- `split` with the repair of fix b61fef8 (the former `pending_fixes/C05-split-overlapping-separator.diff`) as a flag.
`endsw = true` is rich 9.10.0 as found: the last line is dropped when `text.endswith(separator)` — for a separator
that overlaps itself (`"aaa".split("aa")`) that line is not blank and characters are lost;
`endsw = false` is the repaired code, which /repo contains now: the last line is dropped when it is blank.
(`splitW true = split`; an explicit argument for the same reason as `rstripEndW`.) -/
def splitW [BEq σ] (endsw : Bool) (v : Variant) (t : Text σ) (sep : List Char := ['\n'])
    (includeSeparator : Bool := false) (allowBlank : Bool := false) : Except PyErr (List (Text σ)) :=
  if sep.isEmpty then .error .assertionError
  else
    let text := t.plain
    let ms := findAll sep text
    if ms.isEmpty then .ok [t.copy v]
    else do
      let lines ←
        if includeSeparator then t.divide v (ms.map (·.2))
        else do
          let ls ← t.divide v (ms.flatMap (fun m => [m.1, m.2]))
          pure (ls.filter (fun line => line.plain != sep))
      let dropLast :=
        if endsw then sep.isSuffixOf text
        else match lines.getLast? with
          | some l => l.plain.isEmpty
          | none => false
      if !allowBlank && dropLast then pure lines.dropLast else pure lines

/-- `text[a:b:step]` (text.py:196-204): `slice.indices` raises `ValueError` for step 0, any step other than 1
is refused with `TypeError`. -/
def getSliceStep [BEq σ] (v : Variant) (t : Text σ) (a b : Option Int) (step : Option Int) : Except PyErr (Text σ) :=
  match step with
  | none => t.getSlice v a b
  | some k => if k == 0 then .error .valueError else if k == 1 then t.getSlice v a b else .error .typeError

/-- `remove_suffix(suffix)` -/
def removeSuffix (v : Variant) (t : Text σ) (suffix : List Char) : Text σ :=
  if suffix.isSuffixOf t.plain then t.rightCrop v (suffix.length : Int) else t

/-- `fit(width)` -/
def fit [BEq σ] (v : Variant) (t : Text σ) (width : Int) : Except PyErr (List (Text σ)) := do
  let lines ← t.split v
  pure (lines.map (fun l => l.setLength v width))

/-- `text + str` -/
def addStr (v : Variant) (t : Text σ) (s : List Char) : Text σ := (t.copy v).appendStr s none

/-- `text + Text` -/
def addText (v : Variant) (t u : Text σ) : Text σ := (t.copy v).appendT u

/-- `str.split("\n")` -/
def splitNL : List Char → List Char → List (List Char)
  | [], cur => [cur.reverse]
  | c :: rest, cur => if c == '\n' then cur.reverse :: splitNL rest [] else splitNL rest (c :: cur)

/-- `len(match.group(1))` for `^( *)(.*)$`: the leading U+0020 spaces only -/
def leadingSpaces (s : List Char) : Nat := (s.takeWhile (· == ' ')).length

/-- `detect_indentation()` (text.py:1046-1065): gcd of the even indentations (of every line, blank ones
included), `or 1`; 1 when there is none. -/
def detectIndentation (t : Text σ) : Nat :=
  let evens := ((splitNL t.plain []).map leadingSpaces).filter (fun n => n % 2 == 0)
  match evens with
  | [] => 1
  | x :: xs => let g := xs.foldl Nat.gcd x; if g == 0 then 1 else g

/-- state of the `for line in text.split()` loop of `with_indent_guides`: (new_lines, blank_lines) -/
def indentStep (v : Variant) (size : Nat) (indentLine : List Char) (style : σ)
    (acc : Except PyErr (List (Text σ) × Nat)) (line : Text σ) : Except PyErr (List (Text σ) × Nat) :=
  match acc with
  | .error e => .error e
  | .ok (newLines, blank) =>
    let indent := leadingSpaces line.plain
    if (line.plain.drop indent).isEmpty then .ok (newLines, blank + 1)
    else if size == 0 then .error .zeroDivisionError
    else
      let newIndent := (List.replicate (indent / size) indentLine).flatten ++ List.replicate (indent % size) ' '
      let line1 := line.setPlain (newIndent ++ line.plain.drop newIndent.length)
      let line2 := line1.stylize v style 0 (some (newIndent.length : Int))
      .ok (newLines ++ List.replicate blank (new v newIndent style) ++ [line2], 0)

/-- `with_indent_guides(indent_size, character=…, style=…)` (text.py:1067-1113); `null` is the style `""`
of the `Text("\n")` the lines are joined with. -/
def withIndentGuides [BEq σ] (v : Variant) (null : σ) (t : Text σ) (indentSize : Option Nat)
    (character : List Char) (style : σ) : Except PyErr (Text σ) := do
  let size := indentSize.getD (detectIndentation t)
  let text ← (t.copy v).expandTabs v none
  let indentLine := character ++ List.replicate (size - 1) ' '
  let lines ← text.split v
  let (newLines, blank) ← lines.foldl (indentStep v size indentLine style) (.ok ([], 0))
  let newLines := newLines ++ List.replicate blank (new v [] style)
  pure ((new v ['\n'] null).join v newLines)

/-! #### render -/

/-- one entry of the `spans` event list of `render`: `(offset, leaving, style_id)` -/
structure Ev where
  off : Int
  leaving : Bool
  id : Nat
deriving Repr, BEq, DecidableEq

/-- `key=itemgetter(0, 1)` comparison `a ≤ b` -/
def Ev.le (a b : Ev) : Bool := decide (a.off < b.off) || (a.off == b.off && (!a.leaving || b.leaving))

def insertEv (e : Ev) : List Ev → List Ev
  | [] => [e]
  | x :: xs => if e.le x then e :: x :: xs else x :: insertEv e xs

/-- `spans.sort(key=itemgetter(0, 1))` (stable) -/
def sortEvs (l : List Ev) : List Ev := l.foldr insertEv []

/-- `sorted(stack)` -/
def insertNat (n : Nat) : List Nat → List Nat
  | [] => [n]
  | x :: xs => if n ≤ x then n :: x :: xs else x :: insertNat n xs

def sortNat (l : List Nat) : List Nat := l.foldr insertNat []

/-- `list.remove(x)`: first occurrence, `ValueError` when absent -/
def removeFirst (x : Nat) : List Nat → Except PyErr (List Nat)
  | [] => .error .valueError
  | y :: ys => if y == x then .ok ys else (removeFirst x ys).map (y :: ·)

/-- a rendered segment: text and the style names combined for it, in combination order
(`none` for the unstyled `end` segment) -/
structure RSeg (σ : Type) where
  text : List Char
  styles : Option (List σ)
deriving Repr, BEq, DecidableEq

/-- the `for (offset, leaving, style_id), (next_offset, _, _) in zip(spans, spans[1:])` loop -/
def renderLoop (text : List Char) (styleOf : Nat → σ) : List Ev → List Nat → Except PyErr (List (RSeg σ))
  | e :: e' :: rest, stack => do
    let stack' ← if e.leaving then removeFirst e.id stack else pure (stack ++ [e.id])
    let seg ←
      if e'.off > e.off then
        -- `Style.combine(())` raises StopIteration inside the generator -> RuntimeError
        if stack'.isEmpty then throw PyErr.runtimeError
        else pure [RSeg.mk (Py.slice text e.off e'.off) (some ((sortNat stack').map styleOf))]
      else pure []
    let tail ← renderLoop text styleOf (e' :: rest) stack'
    pure (seg ++ tail)
  | _, _ => pure []

/-- `style_map[id]` -/
def styleOf (t : Text σ) (id : Nat) : σ :=
  if id == 0 then t.style else ((t.spans[id - 1]?).map (·.style)).getD t.style

/-- the event list before sorting -/
def events (t : Text σ) : List Ev :=
  let es := t.spans.zipIdx
  [⟨0, false, 0⟩] ++ es.map (fun p => ⟨p.1.start, false, p.2 + 1⟩) ++ es.map (fun p => ⟨p.1.stop, true, p.2 + 1⟩)
    ++ [⟨(t.plain.length : Int), true, 0⟩]

/-- `render(console, end)` (text.py:534-586) -/
def render (t : Text σ) (endStr : List Char := []) : Except PyErr (List (RSeg σ)) := do
  let segs ← renderLoop t.plain t.styleOf (sortEvs t.events) []
  pure (segs ++ (if endStr.isEmpty then [] else [RSeg.mk endStr none]))

/-! ### Reference semantics -/

/-- style names of the spans covering position `i`, in span order -/
def spanIds (spans : List (Span σ)) (i : Nat) : List σ := (spans.filter (fun sp => sp.covers i)).map (·.style)

/-- effective style of position `i`: base style, then every covering span in span order -/
def effStyle (t : Text σ) (i : Nat) : List σ := t.style :: spanIds t.spans i

/-- the styled string a `Text` denotes -/
def view (t : Text σ) : List (Char × List σ) := t.plain.zipIdx.map (fun p => (p.1, t.effStyle p.2))

/-- the same without the base style (what the text contributes when placed under another base) -/
def relView (t : Text σ) : List (Char × List σ) := t.plain.zipIdx.map (fun p => (p.1, spanIds t.spans p.2))

/-- the (character, style list) stream of a render result -/
def segStream (segs : List (RSeg σ)) : List (Char × List σ) :=
  segs.flatMap (fun s => s.text.map (fun c => (c, s.styles.getD [])))

/-- The state invariant every editing operation maintains (on the repaired code). -/
def Inv (t : Text σ) : Prop :=
  t.length = (t.plain.length : Int) ∧
  (∀ c ∈ t.plain, isStripCode c = false) ∧
  (∀ sp ∈ t.spans, 0 ≤ sp.start ∧ sp.start ≤ sp.stop ∧ sp.stop ≤ t.length)

end Text
end RichModel
