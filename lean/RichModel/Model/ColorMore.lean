import RichModel.Model.Color
import RichModel.Gen.StrTables
/-!
Fourth deepening of the colour model (property C18) — the rest of the public surface of
`rich/color.py` / `rich/color_triplet.py` that feeds `downgrade`:

* `blend_rgb(color1, color2, cross_fade)` for **every** finite IEEE-754 binary64 `cross_fade` (and
  `inf` / `nan`): `int(r1 + (r2 - r1) * cross_fade)` with the two float operations modelled by exact
  integer arithmetic followed by round-to-nearest-even to 53 significant bits (`rnd53`), `int()` =
  truncation, `int(inf)` = `OverflowError`, `int(nan)` = `ValueError`  → `blendChannelF`, `blendRgbF`;
  and the exact-rational reading `blendChannelQ` (`cross_fade = num/den`, no rounding).
* `parse_rgb_hex` on arbitrary (non-ASCII) strings: `int(s, 16)` first maps every non-ASCII character
  with the Unicode *decimal* property to its ASCII digit and every non-ASCII `str.isspace` character to
  a space (`_PyUnicode_TransformDecimalAndSpaceToASCII`), everything else non-ASCII is an error
  → `intTranslate`, `pyIntHex2U`, `parseRgbHexU` over the runtime tables `Gen.strDecimalRuns`,
  `Gen.strWhitespace`.
* `ColorTriplet.rgb`, `Color.is_default`, `Color.is_system_defined` (`Color.system` is in `Model/Color.lean`).

Core Lean only.
-/
namespace RichModel

/-! ## the saturation decision in exact arithmetic -/

/-- `rgb_to_hls(...)[2] < 1/10` decided in exact rational arithmetic (`s = 0` when `max = min`). -/
def satLowRat (t : Triplet) : Bool := decide (t.maxc = t.minc) || satLowExact t.maxc t.minc

/-! ## IEEE-754 binary64 rounding of an exact integer significand -/

/-- Round a natural number to 53 significant bits, ties to even.  Scale-free: the double nearest to
`n / 2^s` is `rnd53 n / 2^s` as long as the result is a normal double (neither subnormal nor
overflowing), which the driver guarantees by bounding the exponent of `cross_fade`. -/
def rnd53 (n : Nat) : Nat :=
  if n < 2 ^ 53 then n else
    let k := Nat.log2 n - 52
    let q := n / 2 ^ k
    let r := n % 2 ^ k
    if 2 * r < 2 ^ k then q * 2 ^ k
    else if 2 ^ k < 2 * r then (q + 1) * 2 ^ k
    else if q % 2 = 0 then q * 2 ^ k else (q + 1) * 2 ^ k

/-- signed version (round-to-nearest-even is symmetric). -/
def rndI (x : Int) : Int :=
  if x < 0 then -((rnd53 x.natAbs : Nat) : Int) else ((rnd53 x.natAbs : Nat) : Int)

/-- One channel of `blend_rgb` in doubles, `cross_fade = cn / 2^cs` exactly (every finite double has this
form): `p = fl((r2 - r1) * cross_fade)`, `s = fl(r1 + p)`, `int(s)`; all in units of `2^-cs`. -/
def blendChannelF (c1 c2 : Nat) (cn : Int) (cs : Nat) : Int :=
  let p := rndI (((c2 : Int) - (c1 : Int)) * cn)
  let s := rndI ((c1 : Int) * ((2 ^ cs : Nat) : Int) + p)
  Int.tdiv s ((2 ^ cs : Nat) : Int)

/-- One channel of the blend over exact rationals, `cross_fade = num / den` (`den > 0`): the integer part
(toward zero) of `c1 + (c2 - c1) * num / den`. -/
def blendChannelQ (c1 c2 : Nat) (num : Int) (den : Nat) : Int :=
  Int.tdiv ((c1 : Int) * (den : Int) + ((c2 : Int) - (c1 : Int)) * num) (den : Int)

/-- A Python `float` argument. -/
inductive PyFloat where
  | finite (num : Int) (sh : Nat)   -- num / 2^sh
  | posInf | negInf | nan
deriving Repr, DecidableEq

/-- what `int(float)` can raise. -/
inductive BlendErr where
  | overflowError   -- `int(inf)`: "cannot convert float infinity to integer"
  | valueError      -- `int(nan)`: "cannot convert float NaN to integer"
deriving Repr, DecidableEq

/-- one channel, any float: `(r2 - r1) * inf` is `±inf` (`nan` when `r2 = r1`), `r1 + ±inf = ±inf`. -/
def blendChannelPy (c1 c2 : Nat) : PyFloat → Except BlendErr Int
  | .finite cn cs => .ok (blendChannelF c1 c2 cn cs)
  | .nan => .error .valueError
  | .posInf => if c1 = c2 then .error .valueError else .error .overflowError
  | .negInf => if c1 = c2 then .error .valueError else .error .overflowError

/-- `blend_rgb(color1, color2, cross_fade)`: the three `int(...)` are evaluated red, green, blue; the
first one that raises decides the exception. -/
def blendRgbF (t1 t2 : Triplet) (cf : PyFloat) : Except BlendErr (Int × Int × Int) := do
  let r ← blendChannelPy t1.red t2.red cf
  let g ← blendChannelPy t1.green t2.green cf
  let b ← blendChannelPy t1.blue t2.blue cf
  .ok (r, g, b)

/-! ## `int(s, 16)` on arbitrary two-character strings -/

/-- value of a character with the Unicode decimal property (`Gen.strDecimalRuns`: runs `(lo, hi, v)`). -/
def decimalVal? (runs : List (Nat × Nat × Nat)) (cp : Nat) : Option Nat :=
  match runs with
  | [] => none
  | (lo, hi, v) :: rest => if lo ≤ cp ∧ cp ≤ hi then some (v + cp - lo) else decimalVal? rest cp

/-- `_PyUnicode_TransformDecimalAndSpaceToASCII` on one character: ASCII is kept; a non-ASCII decimal
digit becomes its ASCII digit, a non-ASCII white-space character a space, anything else `none`
(the transform writes `?` and `int()` fails). -/
def intTranslate (runs : List (Nat × Nat × Nat)) (spaces : List Nat) (c : Char) : Option Char :=
  if c.toNat < 128 then some c
  else match decimalVal? runs c.toNat with
    | some v => if v ≤ 9 then some (Char.ofNat (48 + v)) else none
    | none => if spaces.contains c.toNat then some ' ' else none

/-- `int(s, 16)` for any two-character string. -/
def pyIntHex2U (a b : Char) : Except ColorErr Int :=
  match intTranslate Gen.strDecimalRuns Gen.strWhitespace a, intTranslate Gen.strDecimalRuns Gen.strWhitespace b with
  | some a', some b' => pyIntHex2 a' b'
  | _, _ => .error .valueError

/-- `parse_rgb_hex(hex_color)` for any string (code points). -/
def parseRgbHexU (s : List Char) : Except ColorErr (Int × Int × Int) :=
  match s with
  | [a, b, c, d, e, f] => do
    let r ← pyIntHex2U a b
    let g ← pyIntHex2U c d
    let bl ← pyIntHex2U e f
    .ok (r, g, bl)
  | _ => .error .assertionError

/-! ## `ColorTriplet.rgb`, `Color.is_default`, `Color.is_system_defined` -/

/-- `ColorTriplet.rgb`: `f"rgb({red},{green},{blue})"`. -/
def Triplet.rgbStr (t : Triplet) : List Char :=
  "rgb(".toList ++ (Nat.repr t.red).toList ++ [','] ++ (Nat.repr t.green).toList ++ [','] ++
    (Nat.repr t.blue).toList ++ [')']

/-- `Color.is_default`: `self.type == ColorType.DEFAULT`. -/
def Color.isDefault (c : Color) : Bool := c.type == .default

/-- `Color.is_system_defined`: `self.system not in (ColorSystem.EIGHT_BIT, ColorSystem.TRUECOLOR)`. -/
def Color.isSystemDefined (c : Color) : Bool :=
  !(c.system == .eightBit || c.system == .truecolor)

end RichModel
