import RichModel.Model.Layout
/-
What `Console.log(*strings, sep=…, end=…)` appends to the thread's buffer on a plain console (markup / emoji /
highlight off, `style=None`, `justify=None`, no render hooks), *derived* at the level of "which characters in which
order" (property C15):

  console.py  log 1283-1378: `_collect_renderables` (all objects `str`) -> `LogRender.__call__` -> `render` with
              `self.options` -> `split_and_crop_lines(…, self.width, pad=False)`
  _log_render.py 28-79: `Table.grid(padding=(0, 1))`, `expand = True`; columns time (if `show_time`), message
              (`ratio=1`, `overflow="fold"`), path (if `show_path and path`); one row: `Text(time)` — blanks of the same
              length when the time equals the previous one —, `Renderables([text])`, `Text(path + ":" + line_no)`.

Nothing is re-modelled: the grid is a `Layout.R.table` of the composition layer (C01/C09), i.e. `Model/Table.lean` (C07)
with `Text.wrap` / `render` (C02, C05) in its cells.  Styles (log.time, log.message, log.path, the link) are not
modelled by that layer: the result is compared as text.

The time display (`strftime`) and the caller (`inspect.stack()`) are inputs.
-/
namespace RichModel.ConsoleLog
open RichModel RichModel.Layout RichModel.Frames

/-- `Table.grid(padding=(0, 1))` with `expand = True` (table.py `grid`). -/
def gridOpts : TableOpts :=
  { box := none, showHeader := false, showFooter := false, showEdge := false, padding := ⟨0, 1, 0, 1⟩,
    padEdge := false, collapsePadding := true, expand := true }

def plainText (v : Variant) (s : List Char) (e : List Char := ['\n']) : T := Text.new v s [0] (endStr := e)

/-- The renderable `LogRender.__call__` returns.
`timeCell`: `none` = `show_time` off, otherwise the text of the time cell (the display or blanks);
`pathCell`: `none` = `show_path` off or no path, otherwise `path:line_no`. -/
def logTree (v : Variant) (timeCell : Option (List Char)) (strs : List (List Char)) (sep endStr : List Char)
    (pathCell : Option (List Char)) : R :=
  let message : T := Text.join v (plainText v sep endStr) (strs.map (fun s => plainText v s))
  let blank : R := .text (plainText v [])
  let timeCol : List Col := match timeCell with
    | some s => [Col.mk {} blank blank [.text (plainText v s)]]
    | none => []
  let msgCol : Col := Col.mk { ratio := some 1, overflow := RichModel.Overflow.fold } blank blank
    [.group true [.text message]]
  let pathCol : List Col := match pathCell with
    | some s => [Col.mk {} blank blank [.text (plainText v s)]]
    | none => []
  .table gridOpts (timeCol ++ [msgCol] ++ pathCol)

/-- The segments `log` appends, as text: render at the console width with the console's default options, then crop. -/
def logChars (cfg : Cfg) (timeCell : Option (List Char)) (strs : List (List Char)) (sep endStr : List Char)
    (pathCell : Option (List Char)) : List Char :=
  let segs := consoleRender cfg (logTree cfg.wv.text timeCell strs sep endStr pathCell) {} (cfg.env.consoleWidth : Int)
  let cropped := (splitAndCropLines cfg.cw segs cfg.env.consoleWidth none false true false).flatten
  cropped.flatMap (·.text)

end RichModel.ConsoleLog
