/-
Model of rich/_ratio.py (ratio_reduce, ratio_distribute), rich/table.py `_collapse_widths`
and rich/measure.py `Measurement` arithmetic.  Import-free.

Python's `round(a / b)` and `math.ceil(a / b)` on ints are modelled by the exact
round-half-even / ceiling of the rational a/b (DESIGN.md section 5: exact for |a|,|b| < 2^26).
-/
namespace RichModel

/-- `round(a / b)` for `b > 0`: round half to even of the exact quotient. -/
def roundHalfEven (a : Int) (b : Int) : Int :=
  let q := a / b          -- floor division (Int.div rounds toward -inf for positive b: `Int./` is T-division? see lemma)
  let r := a % b
  if 2 * r < b then q else if 2 * r > b then q + 1 else if q % 2 == 0 then q else q + 1

/-- `math.ceil(a / b)` for `b > 0`. -/
def ceilDiv (a : Int) (b : Int) : Int := -((-a) / b)

/-- `ratio_reduce(total, ratios, maximums, values)` (rich/_ratio.py:5-34). -/
def ratioReduceLoop : List (Int × Int × Int) → Int → Int → List Int
  | [], _, _ => []
  | (ratio, maximum, value) :: rest, totalRemaining, totalRatio =>
    if ratio != 0 && totalRatio > 0 then
      let distributed := min maximum (roundHalfEven (ratio * totalRemaining) totalRatio)
      (value - distributed) :: ratioReduceLoop rest (totalRemaining - distributed) (totalRatio - ratio)
    else value :: ratioReduceLoop rest totalRemaining totalRatio

def ratioReduce (total : Int) (ratios maximums values : List Int) : List Int :=
  let ratios' := (ratios.zip maximums).map (fun p => if p.2 != 0 then p.1 else 0)
  let totalRatio := ratios'.sum
  if totalRatio == 0 then values
  else ratioReduceLoop (ratios'.zip (maximums.zip values)) total totalRatio

/-- `ratio_distribute(total, ratios, minimums)` (rich/_ratio.py:37-70); `minimums = none` is Python `None`
(also an empty list, which is falsy). The `assert total_ratio > 0` is the `none` result. -/
def ratioDistributeLoop : List (Int × Int) → Int → Int → List Int
  | [], _, _ => []
  | (ratio, minimum) :: rest, totalRemaining, totalRatio =>
    let distributed := if totalRatio > 0 then max minimum (ceilDiv (ratio * totalRemaining) totalRatio) else totalRemaining
    distributed :: ratioDistributeLoop rest (totalRemaining - distributed) (totalRatio - ratio)

def ratioDistribute (total : Int) (ratios : List Int) (minimums : Option (List Int)) : Option (List Int) :=
  let mins? := match minimums with
    | some m => if m.isEmpty then none else some m
    | none => none
  let ratios' : List Int := match mins? with
    | some m => (ratios.zip m).map (fun (p : Int × Int) => if p.2 != 0 then p.1 else 0)
    | none => ratios
  let totalRatio := ratios'.sum
  if totalRatio > 0 then
    let mins := match minimums with
      | some m => m            -- `_minimums = minimums` (an empty list stays empty: zip yields nothing)
      | none => List.replicate ratios'.length 0
    some (ratioDistributeLoop (ratios'.zip mins) total totalRatio)
  else none

/-- max of a list of naturals with default (Python `max(gen)` raises on empty: callers guard). -/
def listMax : List Int → Int
  | [] => 0
  | x :: xs => xs.foldl max x

/-- One iteration of the `while` loop of `Table._collapse_widths` (table.py:520-541);
`none` = `break` / loop condition false. -/
def collapseStep (widths : List Int) (wrapable : List Bool) (maxWidth : Int) : Option (List Int) :=
  let totalWidth := widths.sum
  let excess := totalWidth - maxWidth
  if totalWidth != 0 && excess > 0 then
    let zipped := widths.zip wrapable
    let maxColumn := listMax ((zipped.filter (·.2)).map (·.1))
    let secondMax := listMax (zipped.map (fun p => if p.2 && p.1 != maxColumn then p.1 else 0))
    let diff := maxColumn - secondMax
    let ratios := zipped.map (fun p => if p.1 == maxColumn && p.2 then (1 : Int) else 0)
    if !(ratios.any (· != 0)) || diff == 0 then none
    else
      let maxReduce := List.replicate widths.length (min excess diff)
      some (ratioReduce excess ratios maxReduce widths)
  else none

def collapseLoop : Nat → List Int → List Bool → Int → List Int
  | 0, widths, _, _ => widths
  | fuel+1, widths, wrapable, maxWidth =>
    match collapseStep widths wrapable maxWidth with
    | none => widths
    | some w => collapseLoop fuel w wrapable maxWidth

/-- `Table._collapse_widths`: fuel `sum widths + 1` is shown sufficient in `Lemmas/Ratio`. -/
def collapseWidths (widths : List Int) (wrapable : List Bool) (maxWidth : Int) : List Int :=
  if wrapable.any id then collapseLoop (widths.sum.toNat + 1) widths wrapable maxWidth else widths

/-! ### Measurement (measure.py) -/

structure Measurement where
  minimum : Int
  maximum : Int
deriving Repr, BEq, DecidableEq

def Measurement.normalize (m : Measurement) : Measurement :=
  let minimum := min (max 0 m.minimum) m.maximum
  { minimum := max 0 minimum, maximum := max 0 (max minimum m.maximum) }

def Measurement.withMaximum (m : Measurement) (width : Int) : Measurement :=
  { minimum := min m.minimum width, maximum := min m.maximum width }

def Measurement.withMinimum (m : Measurement) (width : Int) : Measurement :=
  let width := max 0 width
  { minimum := max m.minimum width, maximum := max m.maximum width }

def Measurement.clamp (m : Measurement) (minWidth maxWidth : Option Int) : Measurement :=
  let m := match minWidth with | some w => m.withMinimum w | none => m
  match maxWidth with | some w => m.withMaximum w | none => m

/-- The post-processing `Measurement.get` applies to whatever `__rich_measure__` returned
(measure.py:93-112): `None` result of the renderable = no `__rich_measure__`. -/
def Measurement.getPost (maxWidth : Int) (measured : Option Measurement) : Measurement :=
  if maxWidth < 1 then ⟨0, 0⟩
  else match measured with
    | none => ⟨0, maxWidth⟩
    | some m =>
      let rw := (m.normalize).withMaximum maxWidth
      if rw.maximum < 1 then ⟨0, 0⟩ else rw.normalize

end RichModel
