import RichModel.Model.Wrap
import RichModel.Model.Frames
import RichModel.Model.FramesTree
import RichModel.Model.FramesColumns
import RichModel.Model.FramesTitle
import RichModel.Model.Table
import RichModel.Gen.TableBoxes
/-!
# The composition layer (properties C01 and C09)

An inductive type `R` of renderable trees over Rich's built-in renderables, and the three functions the two
properties speak about:

* `render r opts w`  — `list(renderable.__rich_console__(console, options))` with `options.max_width = w ≥ 1`,
  every yielded renderable rendered recursively by `Console.render` (console.py:867-914);
  `consoleRender` adds the `max_width < 1 → nothing` guard of `Console.render`;
* `measure r w`      — `Measurement.get(console, renderable, w)` for `w ≥ 1` (measure.py:76-122);
  `measureGet` adds the `max_width < 1 → Measurement(0, 0)` guard;
* `smin r`           — the *structural minimum* of the statement of C01: borders and padding plus room for one
  character (two if double-width characters occur) in every innermost column.

Nothing is re-modelled here: text is `Wrap.wrap` (C02) + `Text.join` + `Text.render` (C05); the frames are the
functions of `Model/Frames*.lean` (C08) and the table is `Model/Table.lean` (C07), whose *oracles* (`Child`, `Cell`)
are instantiated with the recursive functions of this file.  What this file adds is the glue Rich has between them:
`Text.__rich_console__` / `__rich_measure__`, `RenderGroup`, `Table.__rich_console__` at the level of segments (the
cells' own segments between the box characters), `Table.__rich_measure__`, the inner `Table.grid` of `Columns`, the
`ConsoleOptions` (`justify`, `overflow`, `no_wrap`) that travel from a table column to the texts in its cells, objects
without `__rich_measure__` (`opaque`) and objects cast through `__rich__` (`cast`).

Where a frame function answers "outside my domain" (`panelConsole … = .ok none`: a panel title that is not a one-line
simple text, an unknown box) or Python would raise (in rich 9.10.0 as found a `Table()` without columns asked to expand: `AssertionError` of
`ratio_distribute`; repaired by fix 1d61bac, flag `noColumnsAsserts`), the model emits the *poison* segments `cfg.poison`.  The driver evaluates every request under two
different poisons and answers `unmodelled` when the two results differ, so such a case can never leak into a compared
answer; the theorems carry the corresponding well-formedness hypotheses explicitly.
-/
namespace RichModel.Layout
open RichModel RichModel.Frames

/-- style names of the texts: the list of atomic ids combined (as in `Drv/C02.lean`) -/
abbrev S := List Nat
abbrev T := Text S
abbrev Seg := Segment Nat
abbrev Ln := List Seg
abbrev Ch := Child Nat

/-- the style algebra full justification consults (only *which* spaces get which style depends on it, never a
segment boundary) -/
def alg : Wrap.StyleAlg S := { null := [0], comb := fun l => l.flatten, eqv := fun a b => a == b }

/-- The part of `ConsoleOptions` that a renderable hands down unchanged and a text finally reads
(console.py:100-106).  `no_wrap` defaults to `False`, the other two to `None`. -/
structure Opts where
  justify : Option Justify := none
  overflow : Option RichModel.Overflow := none
  noWrap : Option Bool := some false
deriving Repr, BEq, DecidableEq

/-- Everything that is fixed during one rendering: the cell-width function, the console, the code variants, the
poison (see the file comment). -/
structure Cfg where
  cw : Char → Nat
  env : Env
  v : Frames.Variant
  wv : Wrap.WVariant
  fl : Flags
  /-- `console.tab_size` (8 unless the console was built otherwise); `Text.__rich_console__` uses
  `console.tab_size or self.tab_size or 8`. -/
  tabSize : Nat := 8
  /-- as-found code: `Panel` renders its title with `console.render(title_text)`, i.e. at `console.width`; `false` = the code
  since fix 0e1edf7: at the width the title was aligned to (`console.options.update(width=width - 4)`) -/
  titleAtConsoleWidth : Bool := false
  /-- as-found code: a `Rule` without a title ignores its `end`; `false` = the code since fix a442cbd -/
  ruleNoTitleEnd : Bool := false
  poison : List Seg := []

/-! ## Text (text.py:504-532) -/

def rsegToSeg (s : Text.RSeg S) : Seg := { text := s.text, style := none, control := false }

/-- `self.justify or options.justify or DEFAULT_OVERFLOW` — the default really is the string `"fold"`, which
`Lines.justify` ignores, exactly like `"default"`. -/
def effJustify (t : T) (o : Opts) : Justify := (t.justify.orElse (fun _ => o.justify)).getD Justify.default

/-- `self.overflow or options.overflow or DEFAULT_OVERFLOW` -/
def effOverflow (t : T) (o : Opts) : RichModel.Overflow := (t.overflow.orElse (fun _ => o.overflow)).getD RichModel.Overflow.fold

/-- `pick_bool(self.no_wrap, options.no_wrap, False)` -/
def effNoWrap (t : T) (o : Opts) : Bool := (t.noWrap.orElse (fun _ => o.noWrap)).getD false

/-- `console.tab_size or self.tab_size or 8` and then `tab_size or 8` -/
def effTabSize (cfg : Cfg) (t : T) : Nat :=
  let a := if cfg.tabSize != 0 then cfg.tabSize else (match t.tabSize with | some n => if n != 0 then n else 8 | none => 8)
  if a != 0 then a else 8

/-- The lines `Text.__rich_console__` wraps the text into. -/
def textLines (cfg : Cfg) (t : T) (o : Opts) (w : Nat) : Except PyErr (List T) :=
  Wrap.wrap cfg.wv cfg.cw alg t w (some (effJustify t o)) (some (effOverflow t o)) (some (effTabSize cfg t))
    (some (effNoWrap t o))

/-- executable `Text.Inv`: `_length` is the length of the text, no stripped control code, every span inside -/
def invB (t : T) : Bool :=
  t.length == (t.plain.length : Int) && t.plain.all (fun c => !isStripCode c)
    && t.spans.all (fun sp => decide (0 ≤ sp.start) && decide (sp.start ≤ sp.stop) && decide (sp.stop ≤ t.length))

/-- `Text.__rich_console__`: wrap, `Text("\n").join(lines)`, `render(end=self.end)`.
The joined text is checked to be consistent (`Text.Inv`, which `wrap` and `join` preserve — C02/C05 prove it for the
fold pipeline) before it is rendered: the check never fails on a consistent input (the driver would answer
`unmodelled`), and it lets the theorems of this layer use `render = view` (C05) without carrying `Inv` through every
overflow / justify combination of `wrap`. -/
def textConsoleE (cfg : Cfg) (t : T) (o : Opts) (w : Nat) : Except PyErr (List Seg) :=
  textLines cfg t o w >>= fun lines =>
  let joined := Text.join cfg.wv.text (Text.new cfg.wv.text ['\n'] [0]) lines
  if invB joined then
    joined.render t.endStr >>= fun segs => .ok (segs.map rsegToSeg)
  else .error PyErr.valueError

/-- …a consistent text (`Text.Inv`) never raises; the error branch is mapped to the poison. -/
def textConsole (cfg : Cfg) (t : T) (o : Opts) (w : Nat) : List Seg :=
  match textConsoleE cfg t o w with
  | .ok s => s
  | .error _ => cfg.poison

/-- `str.splitlines()` line boundaries of the running Python that survive `strip_control_codes`:
`\n`, FS, GS, RS, NEL, LS, PS (`\r`, VT, FF are stripped by `Text.__init__`). -/
def isLineBreak (c : Char) : Bool :=
  let n := c.toNat
  n == 10 || n == 11 || n == 12 || n == 13 || n == 28 || n == 29 || n == 30 || n == 0x85 || n == 0x2028 || n == 0x2029

/-- pieces of `s` between separators (`str.splitlines()` up to a trailing empty piece, `str.split()` up to
empty pieces — neither matters under `max(cell_len …)` because an empty piece measures 0) -/
def splitOnP (p : Char → Bool) : List Char → List Char → List (List Char)
  | [], cur => [cur.reverse]
  | c :: rest, cur => if p c then cur.reverse :: splitOnP p rest [] else splitOnP p rest (c :: cur)

/-- `max(cell_len(x) for x in pieces)` -/
def maxCellLen (cw : Char → Nat) (pieces : List (List Char)) : Nat := pieces.foldl (fun m x => max m (cellLen cw x)) 0

/-- `Text.__rich_measure__` (text.py:526-532). -/
def textRichMeasure (cw : Char → Nat) (t : T) : Measurement :=
  if t.plain.all pyIsSpace then ⟨cellLen cw t.plain, cellLen cw t.plain⟩
  else ⟨maxCellLen cw (splitOnP pyIsSpace t.plain []), maxCellLen cw (splitOnP isLineBreak t.plain [])⟩

/-- `Text.__rich_measure__` behind the code-variant flag of finding `text-measure-splitlines` (C09): `true` = rich 9.10.0 as found —
the widest of `text.splitlines()`, which also breaks at FS / GS / RS / NEL / LS / PS although `Text.wrap` divides at `"\n"` only, so a
text with one of those is wrapped at its own measured maximum; `false` = since the fix: the widest of `text.split("\n")`.
(`textRichMeasure`, which the tree functions `measure` / `render` use, is the as-found one: the two agree on every text whose only
`str.splitlines` separator is the line feed — `textRichMeasureNl_eq`; the harness generates the other separators for single texts
only, request `layout_text_spec` with the flag in front.) -/
def textRichMeasureV (splitlines : Bool) (cw : Char → Nat) (t : T) : Measurement :=
  if splitlines then textRichMeasure cw t
  else if t.plain.all pyIsSpace then ⟨cellLen cw t.plain, cellLen cw t.plain⟩
  else ⟨maxCellLen cw (splitOnP pyIsSpace t.plain []), maxCellLen cw (splitOnP (fun c => c == '\n') t.plain [])⟩

def textMeasure (cw : Char → Nat) (t : T) (w : Nat) : Measurement :=
  Measurement.getPost (w : Int) (some (textRichMeasure cw t))

/-- a text as a child oracle -/
def textChild (cfg : Cfg) (t : T) (o : Opts) : Ch :=
  { measure := fun w => textMeasure cfg.cw t w, render := fun w => textConsole cfg t o w }

/-- `Text("")` / the `str` `""` a table stores for a missing cell -/
def emptyText (cfg : Cfg) : T := Text.new cfg.wv.text [] [0]

/-! ## Rule: the yielded `Text` is rendered by `Console.render` with the options in force -/

def ruleConsoleL (cfg : Cfg) (o : RuleOpts) (opts : Opts) (w : Nat) : List Seg :=
  let pe := ruleText cfg.cw cfg.env cfg.v o (w : Int)
  -- without a title `ruleText` answers the default end (the as-found code); since fix a442cbd `self.end` is used
  let e := if o.title.isEmpty && !cfg.ruleNoTitleEnd then o.endS else pe.2
  textConsole cfg (Text.new cfg.wv.text pe.1 [0] [] none none none e) opts w

/-! ## Panel: C08's `panelConsole` with the title as a real `Text` (C08 `Model/FramesTitle.lean`: `panelTitleText`) rendered by
`textConsole`, so that any title is modelled: tabs, any whitespace, wider than the console -/

/-- `Panel._title` as a `Text`; `.ok none` = no title (`None`, `""`) -/
def panelTitleL (cfg : Cfg) (title : List Char) : Except RichModel.PyErr (Option T) :=
  if title.isEmpty then .ok none else panelTitleText cfg.wv.text true (Text.new cfg.wv.text title [0])

/-- `Panel.__rich_console__` (panel.py:108-160); `none` = poison (bad padding tuple, unknown box, a raising `expand_tabs`). -/
def panelConsoleL (cfg : Cfg) (o : PanelOpts) (c : Ch) (w : Int) : Option (List Seg) :=
  match unpackPad o.padding with
  | .error _ => none
  | .ok p =>
    let inner := panelInner cfg.cw cfg.v p c
    match boxAt (substituteBox cfg.env (o.safeBox.getD cfg.env.safeBox) o.box) with
    | none => none
    | some box =>
      match panelTitleL cfg o.title with
      | .error _ => none
      | .ok title =>
        let width0 : Int := match o.width with | none => w | some pw => min w pw
        let childW0 : Int := if o.expand then width0 - 2 else fitWidth cfg.v (inner.measureAt (width0 - 2)).maximum
        let childW : Int := match title with
          | none => childW0
          | some t => min (w - 2) (max childW0 ((cellLen cfg.cw t.plain : Int) + 2))
        let width := childW + 2
        let lines := inner.linesAt cfg.cw childW true
        let top : List Seg := match title with
          | none => [seg (boxTop box (width - 2))]
          | some t =>
            let aligned := t.align cfg.wv.text cfg.cw (toAlignMethod o.titleAlign) (width - 4) box.top
            -- `Panel._title` set `end = ""`, `no_wrap = True` and left `overflow` alone; `align` keeps all three (the record update
            -- below changes nothing: it only makes those three fields syntactically visible to the proofs)
            let aligned : T := { aligned with endStr := [], noWrap := some true, overflow := none }
            let rw : Int := if cfg.titleAtConsoleWidth then (cfg.env.consoleWidth : Int) else width - 4
            [seg [box.topLeft, box.top]] ++ (if rw < 1 then [] else textConsole cfg aligned {} rw.toNat)
              ++ [seg [box.top, box.topRight]]
        some (top ++ [nl]
          ++ lines.flatMap (fun l => [seg [box.midLeft]] ++ l ++ [seg [box.midRight]] ++ [nl])
          ++ [seg (boxBottom box (width - 2)), nl])

/-- `Panel.__rich_measure__` (panel.py:162-179): `measure_renderables([child, title])`; `none` = poison -/
def panelRichMeasureL (cfg : Cfg) (o : PanelOpts) (c : Ch) (maxWidth : Int) : Option Measurement :=
  match unpackPad o.padding with
  | .error _ => none
  | .ok p =>
    match panelTitleL cfg o.title with
    | .error _ => none
    | .ok title =>
      let padding : Int := p.left + p.right
      match o.width with
      | some pw => some ⟨pw, pw⟩
      | none =>
        let avail := maxWidth - padding - 2
        let mc := (c.measureAt avail).maximum
        let m := match title with
          | none => mc
          | some t => max mc (if avail < 1 then 0 else (textMeasure cfg.cw t avail.toNat).maximum)
        some ⟨m + padding + 2, m + padding + 2⟩

/-! ## Table (table.py) at the level of segments -/

structure ColOpts where
  justify : Justify := Justify.left
  overflow : RichModel.Overflow := RichModel.Overflow.ellipsis
  noWrap : Bool := false
  width : Option Nat := none
  minWidth : Option Nat := none
  maxWidth : Option Nat := none
  ratio : Option Nat := none
deriving Repr, BEq, DecidableEq

structure TableOpts where
  /-- index into `Gen.tableBoxes` (the box constants of rich/box.py); `none` = `box=None` -/
  box : Option Nat := none
  /-- `safe_box` (`None` = the console's) -/
  safeBox : Option Bool := none
  showHeader : Bool := true
  showFooter : Bool := false
  showEdge : Bool := true
  showLines : Bool := false
  leading : Nat := 0
  padding : PadDims := ⟨0, 1, 0, 1⟩
  padEdge : Bool := true
  collapsePadding : Bool := false
  expand : Bool := false
  width : Option Nat := none
  minWidth : Option Nat := none
  title : Option T := none
  caption : Option T := none
  titleJustify : Justify := Justify.center
  captionJustify : Justify := Justify.center
  rowEndSection : List Bool := []
deriving Repr

/-- the options the cells of a column are rendered with: `options.update(width=…, justify=column.justify,
no_wrap=column.no_wrap, overflow=column.overflow)` — none of the three is ever `None` -/
def ColOpts.cellOpts (c : ColOpts) : Opts := { justify := some c.justify, overflow := some c.overflow, noWrap := some c.noWrap }

/-- A column whose cells are child oracles (raw, before `Table._get_cells` pads them). -/
structure ColS where
  o : ColOpts
  header : Ch
  footer : Ch
  cells : List Ch

def boxOf (i : Nat) : Option RichModel.Box := (Gen.tableBoxes[i]?).bind (fun e => RichModel.Box.ofLines? e.2.2)

/-- the table without its columns -/
def TableOpts.skel (o : TableOpts) : Table :=
  { columns := [], rowEndSection := o.rowEndSection, box := o.box.bind boxOf, showHeader := o.showHeader,
    showFooter := o.showFooter, showEdge := o.showEdge, showLines := o.showLines, leading := (o.leading : Int),
    padding := ((o.padding.top : Int), (o.padding.right : Int), (o.padding.bottom : Int), (o.padding.left : Int)),
    padEdge := o.padEdge, collapsePadding := o.collapsePadding, expandFlag := o.expand,
    width := o.width.map Int.ofNat, minWidth := o.minWidth.map Int.ofNat, title := none, caption := none }

/-- `self.box.substitute(options, safe=pick_bool(self.safe_box, console.safe_box))` (table.py `_render`): the legacy-Windows
and ASCII-only replacements of `Box.substitute` (modelled by C08 on the indices of `Gen.boxes`, which lists the boxes of
rich/box.py in the same source order as `Gen.tableBoxes`). -/
def TableOpts.subst (env : Env) (o : TableOpts) : TableOpts :=
  { o with box := o.box.map (substituteBox env (o.safeBox.getD env.safeBox)) }

def dfltCh : Ch := { measure := fun _ => ⟨0, 0⟩, render := fun _ => [] }

/-- `add_padding` of `Table._get_cells`: `Padding(renderable, (top, right, bottom, left))` unless `not any(padding)`. -/
def padCell (cfg : Cfg) (tb : Table) (firstCol lastCol firstRow lastRow : Bool) (c : Ch) : Ch :=
  match tb.cellPadding firstCol lastCol firstRow lastRow with
  | none => c
  | some p => paddingChild cfg.cw cfg.v ⟨p.1.toNat, p.2.1.toNat, p.2.2.1.toNat, p.2.2.2.toNat⟩ true c

/-- `raw_cells`: header (if shown), the cells, footer (if shown) -/
def rawCells (tb : Table) (c : ColS) : List Ch :=
  (if tb.showHeader then [c.header] else []) ++ c.cells ++ (if tb.showFooter then [c.footer] else [])

/-- what `Table._get_cells(console, j, column)` yields, as child oracles -/
def paddedCol (cfg : Cfg) (tb : Table) (ncols j : Nat) (c : ColS) : List Ch :=
  let raw := rawCells tb c
  raw.zipIdx.map (fun ci => padCell cfg tb (j == 0) (j + 1 == ncols) (ci.2 == 0) (ci.2 + 1 == raw.length) ci.1)

/-- the plain text of a line -/
def lineText (l : Ln) : List Char := l.flatMap (·.text)

/-- a padded cell as the oracle `Model/Table.lean` asks for -/
def toCell (cfg : Cfg) (c : Ch) : Cell :=
  { measure := c.measure, renderLines := fun w => (c.linesAt cfg.cw (w : Int) true).map lineText }

/-- A `Column` of `Model/Table.lean` from the column options and the (padded) cells as oracles, header first and
footer last when shown. -/
def toColumnC (tb : Table) (c : ColS) (pc : List Cell) : Column :=
  let k := if tb.showHeader then 1 else 0
  { header := if tb.showHeader then pc.getD 0 default else default,
    footer := if tb.showFooter then pc.getLast?.getD default else default,
    cells := (pc.drop k).take c.cells.length,
    width := c.o.width.map Int.ofNat, minWidth := c.o.minWidth.map Int.ofNat, maxWidth := c.o.maxWidth.map Int.ofNat,
    ratio := c.o.ratio.map Int.ofNat, noWrap := c.o.noWrap }

def toColumn (cfg : Cfg) (tb : Table) (c : ColS) (pc : List Ch) : Column := toColumnC tb c (pc.map (toCell cfg))

def paddedCols (cfg : Cfg) (tb : Table) (cols : List ColS) : List (List Ch) :=
  cols.zipIdx.map (fun cj => paddedCol cfg tb cols.length cj.2 cj.1)

/-- The `Table` of `Model/Table.lean` for these options and columns. -/
def toTable (cfg : Cfg) (o : TableOpts) (cols : List ColS) : Table :=
  let tb := o.skel
  { tb with columns := (cols.zip (paddedCols cfg tb cols)).map (fun cp => toColumn cfg tb cp.1 cp.2) }

/-- a cell that has been rendered already: the oracle answers with the stored lines whatever the width -/
def renderedCell (lines : List Ln) : Cell := { measure := fun _ => ⟨0, 0⟩, renderLines := fun _ => lines.map lineText }

/-- one row: the stored lines of its cells `Segment.set_shape`d to the column widths and the row height
(`max_height = max(1, len(lines) …)`) -/
def shapeRowS (cw : Char → Nat) (widths : List Nat) (row : List (List Ln)) : List (List Ln) :=
  let h := row.foldl (fun m l => max m l.length) 1
  (widths.zip row).map (fun wl => setShape cw wl.2 wl.1 (some h) none)

/-- number of rows `zip(*_column_cells)` has -/
def rowCount {α : Type} (cols : List (List α)) : Nat :=
  match cols with
  | [] => 0
  | c :: cs => cs.foldl (fun m l => min m l.length) c.length

def edgeSeg (s : List Char) : List Seg := if s.isEmpty then [] else [seg s]

/-- the cells of a line with the divider segment between neighbours (`loop_last(cells)`) -/
def joinSegs (sep : List Seg) : List Ln → List Seg
  | [] => []
  | [x] => x
  | x :: y :: rest => x ++ sep ++ joinSegs sep (y :: rest)

/-- The segments `_render` yields for one body line: a separator is ONE segment and a line feed; a cell line is
the edge character, the cells' own segments with the divider between them, the edge character, a line feed. -/
def bodyLineSegs (shaped : List (List (List Ln))) (l : BodyLine) : List Seg :=
  match l.tag with
  | .cell i k =>
    edgeSeg l.left ++ joinSegs (edgeSeg l.sep) ((shaped.getD i []).map (fun c => c.getD k [])) ++ edgeSeg l.right ++ [nl]
  | _ => [seg l.text, nl]

/-- `render_annotation`: the title / caption `Text` rendered at the table's width with `justify=title_justify`;
a falsy title (`None`, or a `Text` of length 0) is skipped. -/
def annotation (cfg : Cfg) (t : Option T) (j : Justify) (opts : Opts) (tableWidth : Int) : List Seg :=
  match t with
  | none => []
  | some t =>
    if t.length == 0 then []
    else if tableWidth < 1 then []
    else textConsole cfg t { opts with justify := some j } tableWidth.toNat

/-- `Table.__rich_console__` (table.py:402-440) with `options.max_width = w`: the widths come from
`Table.calcWidths` with the cells' *measure* oracles; every cell is then rendered exactly once, at its column's
width (`console.render_lines(cell.renderable, render_options)`), and `Table.renderBody` is run on the table whose
cell oracles answer with those stored lines. -/
def tableConsole (cfg : Cfg) (o : TableOpts) (opts : Opts) (cols : List ColS) (w : Nat) : List Seg :=
  let tb := toTable cfg o cols
  let maxWidth : Int := tb.width.getD (w : Int)
  let extra := tb.extraWidth
  match tb.calcWidths cfg.fl (maxWidth - extra) with
  | none => cfg.poison
  | some ws =>
    let widths := ws.map Int.toNat
    let tableWidth := ws.sum + extra
    let padded := paddedCols cfg o.skel cols
    let rendered : List (List (List Ln)) :=
      (widths.zip padded).map (fun wp => wp.2.map (fun ch => ch.linesAt cfg.cw (wp.1 : Int) true))
    let tbR : Table := { o.skel with columns := (cols.zip rendered).map (fun cr => toColumnC o.skel cr.1 (cr.2.map renderedCell)) }
    let body := tbR.renderBody cfg.fl cfg.cw widths
    let shaped := (List.range (rowCount rendered)).map (fun i => shapeRowS cfg.cw widths (rendered.map (fun c => c.getD i [])))
    annotation cfg o.title o.titleJustify opts tableWidth
      ++ body.flatMap (bodyLineSegs shaped)
      ++ annotation cfg o.caption o.captionJustify opts tableWidth

/-- `Table.__rich_measure__` (table.py:268-291); `none` = the `AssertionError` of `ratio_distribute`. -/
def tableRichMeasure (fl : Flags) (t : Table) (maxWidth : Int) : Option Measurement :=
  let maxWidth := t.width.getD maxWidth
  if maxWidth < 0 then some ⟨0, 0⟩
  else
    let extra := t.extraWidth
    match t.calcWidths fl (maxWidth - extra) with
    | none => none
    | some ws =>
      let mw := ws.sum
      let ms := t.indexed.map (fun ci => t.measureColumn ci.2 ci.1 mw)
      let minimum := (ms.map (·.minimum)).sum + extra
      let maximum := match t.width with
        | none => (ms.map (·.maximum)).sum + extra
        | some tw => tw
      some ((Measurement.mk minimum maximum).clamp t.minWidth none)

/-- `Measurement.get(console, table, w)`; a raising `__rich_measure__` is mapped to the poison measurement. -/
def poisonMeasure (cfg : Cfg) (w : Nat) : Measurement :=
  Measurement.getPost (w : Int) (some ⟨(cfg.poison.length : Int) * 1000003, (cfg.poison.length : Int) * 1000003⟩)

def tableMeasure (cfg : Cfg) (o : TableOpts) (cols : List ColS) (w : Nat) : Measurement :=
  match tableRichMeasure cfg.fl (toTable cfg o cols) (w : Int) with
  | none => poisonMeasure cfg w
  | some m => Measurement.getPost (w : Int) (some m)

/-! ## Columns (columns.py): the layout of C08 and the inner `Table.grid` -/

structure ColsOpts where
  lay : ColumnsOpts := {}
  expand : Bool := false
  align : Option AlignM := none
  title : Option T := none
deriving Repr

/-- `Table.grid(padding=self.padding, collapse_padding=True, pad_edge=False)`, `expand`, `title` -/
def ColsOpts.grid (o : ColsOpts) (p : PadDims) : TableOpts :=
  { box := none, showHeader := false, showFooter := false, showEdge := false, padding := p, padEdge := false,
    collapsePadding := true, expand := o.expand, title := o.title }

/-- `Columns.__rich_console__` from the item oracles (rendered with the options of a default `Column`):
the column count and order (`columnsLayout`, C08), the `Constrain` / `Align` wrappers, then the grid. -/
def columnsConsole (cfg : Cfg) (o : ColsOpts) (opts : Opts) (items : List Ch) (w : Nat) : List Seg :=
  match unpackPad o.lay.padding with
  | .error _ => cfg.poison
  | .ok p =>
    let measured := items.map (fun c => (c.measureAt (w : Int)).maximum)
    match columnsLayout cfg.v o.lay measured (w : Int) with
    | .error _ => cfg.poison
    | .ok none => []
    | .ok (some lay) =>
      -- `renderable_widths[0]` after `if self.equal: renderable_widths = [max(...)] * n`
      let w0 := listMax measured
      let wrap (c : Ch) : Ch :=
        let c := if o.lay.equal then constrainChild (some w0) c else c
        match o.align with
        | some a => alignChild cfg.cw cfg.env cfg.v { align := a } c
        | none => c
      let blank := textChild cfg (emptyText cfg) ({} : ColOpts).cellOpts
      let cell (x : Option Nat) : Ch := match x with
        | none => blank
        | some i => wrap (items.getD i dfltCh)
      let cols : List ColS := (List.range lay.columnCount).map (fun j =>
        { o := { width := o.lay.width.map Int.toNat }, header := blank, footer := blank,
          cells := lay.rows.map (fun row => cell (row.getD j none)) })
      tableConsole cfg (o.grid p) opts cols w

/-! ## The renderable trees -/

mutual
inductive R where
  | text (t : T)
  /-- a `str` renderable: `t` is the `Text` `console.render_str` makes of it (markup, emoji codes, highlighter).  It renders and
  measures like that text — except behind a `__rich__` cast, see `measure`. -/
  | str (t : T)
  | padding (p : PadDims) (expand : Bool) (child : R)
  | panel (o : PanelOpts) (child : R)
  | align (o : AlignOpts) (child : R)
  | constrain (width : Option Nat) (child : R)
  | styled (child : R)
  /-- an object whose `__rich__` returns `child` -/
  | cast (child : R)
  /-- an object with only `__rich_console__` (it yields `child`): no `__rich_measure__` -/
  | opaque (child : R)
  | group (fit : Bool) (items : List R)
  | rule (o : RuleOpts)
  | bar (o : BarOpts)
  | progressBar (o : ProgressOpts)
  | table (o : TableOpts) (cols : List Col)
  | columns (o : ColsOpts) (items : List R)
  | tree (root : TNode)
inductive Col where
  | mk (o : ColOpts) (header footer : R) (cells : List R)
inductive TNode where
  | mk (label : R) (gs : GStyle) (expanded : Bool) (children : List TNode)
end

/-- `measure_renderables` (measure.py:125-149) on the measurements of the items -/
def measureRenderables (ms : List Measurement) : Measurement :=
  if ms.isEmpty then ⟨0, 0⟩ else ⟨listMax (ms.map (·.minimum)), listMax (ms.map (·.maximum))⟩

/-- a child oracle that can only be measured (the `__rich_measure__` methods never render) -/
def mCh (m : Nat → Measurement) : Ch := { measure := m, render := fun _ => [] }

mutual
/-- `Measurement.get(console, r, w)` for `w ≥ 1`. -/
def measure (cfg : Cfg) : R → Nat → Measurement
  | .text t, w => textMeasure cfg.cw t w
  | .str t, w => textMeasure cfg.cw t w
  | .padding p _ c, w => Measurement.getPost (w : Int) (some (paddingRichMeasure p (mCh (fun x => measure cfg c x)) (w : Int)))
  | .panel o c, w =>
    match panelRichMeasureL cfg o (mCh (fun x => measure cfg c x)) (w : Int) with
    | some m => Measurement.getPost (w : Int) (some m)
    | none => poisonMeasure cfg w
  | .align _ c, w => Measurement.getPost (w : Int) (some (alignRichMeasure (mCh (fun x => measure cfg c x)) (w : Int)))
  | .constrain k c, w =>
    Measurement.getPost (w : Int) (some (constrainRichMeasure (k.map Int.ofNat) (mCh (fun x => measure cfg c x)) (w : Int)))
  | .styled c, w => Measurement.getPost (w : Int) (some (styledRichMeasure (mCh (fun x => measure cfg c x)) (w : Int)))
  -- `Measurement.get` converts a `str` to a `Text` BEFORE it follows `__rich__` (measure.py:97-101): a cast that returns a `str` is
  -- left as a `str`, which has no `__rich_measure__`
  | .cast (.str _), w => Measurement.getPost (w : Int) none
  | .cast c, w => measure cfg c w
  | .opaque _, w => Measurement.getPost (w : Int) none
  | .group fit items, w =>
    Measurement.getPost (w : Int) (some (if fit then measureRenderables (measureL cfg items w) else ⟨(w : Int), (w : Int)⟩))
  | .rule _, w => Measurement.getPost (w : Int) none
  | .bar o, w => Measurement.getPost (w : Int) (some (barRichMeasure o.width (w : Int)))
  | .progressBar o, w => Measurement.getPost (w : Int) (some (barRichMeasure o.width (w : Int)))
  | .table o cols, w => tableMeasure cfg (o.subst cfg.env) (colsM cfg cols) w
  | .columns _ _, w => Measurement.getPost (w : Int) none
  | .tree root, w => Measurement.getPost (w : Int) (some (treeRichMeasure (nodeM cfg root) (w : Int)))
def measureL (cfg : Cfg) : List R → Nat → List Measurement
  | [], _ => []
  | r :: rs, w => measure cfg r w :: measureL cfg rs w
def chsM (cfg : Cfg) : List R → List Ch
  | [] => []
  | r :: rs => mCh (fun x => measure cfg r x) :: chsM cfg rs
def colM (cfg : Cfg) : Col → ColS
  | .mk o h f cells => { o := o, header := mCh (fun x => measure cfg h x), footer := mCh (fun x => measure cfg f x), cells := chsM cfg cells }
def colsM (cfg : Cfg) : List Col → List ColS
  | [] => []
  | c :: cs => colM cfg c :: colsM cfg cs
def nodeM (cfg : Cfg) : TNode → TreeN Nat
  | .mk label gs e ch => .node (mCh (fun x => measure cfg label x)) gs e (nodesM cfg ch)
def nodesM (cfg : Cfg) : List TNode → List (TreeN Nat)
  | [] => []
  | n :: ns => nodeM cfg n :: nodesM cfg ns
end

/-- `Measurement.get(console, r, max_width)` for any Python int `max_width`. -/
def measureGet (cfg : Cfg) (r : R) (w : Int) : Measurement := if w < 1 then ⟨0, 0⟩ else measure cfg r w.toNat

mutual
/-- `list(r.__rich_console__(console, options))`, everything yielded rendered recursively, `options.max_width = w ≥ 1`. -/
def render (cfg : Cfg) : R → Opts → Nat → List Seg
  | .text t, o, w => textConsole cfg t o w
  | .str t, o, w => textConsole cfg t o w
  | .padding p e c, o, w => paddingConsole cfg.cw cfg.v p e ⟨fun x => measure cfg c x, fun x => render cfg c o x⟩ (w : Int)
  | .panel po c, o, w =>
    match panelConsoleL cfg po ⟨fun x => measure cfg c x, fun x => render cfg c o x⟩ (w : Int) with
    | some s => s
    | none => cfg.poison
  | .align ao c, o, w => alignConsole cfg.cw cfg.env cfg.v ao ⟨fun x => measure cfg c x, fun x => render cfg c o x⟩ (w : Int)
  | .constrain k c, o, w => constrainConsole (k.map Int.ofNat) ⟨fun x => measure cfg c x, fun x => render cfg c o x⟩ (w : Int)
  | .styled c, o, w => render cfg c o w
  | .cast c, o, w => render cfg c o w
  | .opaque c, o, w => render cfg c o w
  | .group _ items, o, w => renderL cfg items o w
  | .rule ro, o, w => ruleConsoleL cfg ro o w
  | .bar bo, _, w => barConsole (barInit bo) (w : Int)
  | .progressBar po, _, w => progressConsole cfg.env po (w : Int)
  | .table to cols, o, w => tableConsole cfg (to.subst cfg.env) o (colsR cfg cols) w
  | .columns co items, o, w => columnsConsole cfg co o (chsR cfg items ({} : ColOpts).cellOpts) w
  | .tree root, o, w => treeConsole cfg.cw cfg.env (nodeR cfg root o) (w : Int)
def renderL (cfg : Cfg) : List R → Opts → Nat → List Seg
  | [], _, _ => []
  | r :: rs, o, w => render cfg r o w ++ renderL cfg rs o w
def chsR (cfg : Cfg) : List R → Opts → List Ch
  | [], _ => []
  | r :: rs, o => ⟨fun x => measure cfg r x, fun x => render cfg r o x⟩ :: chsR cfg rs o
def colR (cfg : Cfg) : Col → ColS
  | .mk co h f cells =>
    { o := co, header := ⟨fun x => measure cfg h x, fun x => render cfg h co.cellOpts x⟩,
      footer := ⟨fun x => measure cfg f x, fun x => render cfg f co.cellOpts x⟩, cells := chsR cfg cells co.cellOpts }
def colsR (cfg : Cfg) : List Col → List ColS
  | [] => []
  | c :: cs => colR cfg c :: colsR cfg cs
def nodeR (cfg : Cfg) : TNode → Opts → TreeN Nat
  | .mk label gs e ch, o => .node ⟨fun x => measure cfg label x, fun x => render cfg label o x⟩ gs e (nodesR cfg ch o)
def nodesR (cfg : Cfg) : List TNode → Opts → List (TreeN Nat)
  | [], _ => []
  | n :: ns, o => nodeR cfg n o :: nodesR cfg ns o
end

/-- `list(console.render(r, options))` with `options.max_width = w` (any Python int). -/
def consoleRender (cfg : Cfg) (r : R) (o : Opts) (w : Int) : List Seg := if w < 1 then [] else render cfg r o w.toNat

/-- The observation of C01 / C09: the segment stream split at line feeds; the cell length of every line. -/
def renderedLines (cfg : Cfg) (r : R) (o : Opts) (w : Int) : List Ln := splitLines (consoleRender cfg r o w)

/-! ## The structural minimum -/

/-- room for one character, two if a double-width character occurs -/
def charRoom (cw : Char → Nat) (s : List Char) : Nat := if s.any (fun c => decide (cw c ≥ 2)) then 2 else 1

def sumNat : List Nat → Nat
  | [] => 0
  | x :: xs => x + sumNat xs

def maxNat : List Nat → Nat
  | [] => 0
  | x :: xs => max x (maxNat xs)

/-- cells of border a table draws besides its columns: the two edges and one divider between neighbours -/
def tableExtra (o : TableOpts) (ncols : Nat) : Nat :=
  (if o.box.isSome && o.showEdge then 2 else 0) + (if o.box.isSome then ncols - 1 else 0)

mutual
/-- **The structural minimum** of a renderable tree: its borders and padding plus room for one character (two if
double-width characters occur) in every innermost column.
* text: one character (two with a double-width character);
* padding: left + right + the child; panel: the two borders, its padding and the child — and the four border
  characters a titled panel's top row always has;
* a table: its edges and dividers, and for every column the cell padding plus the widest minimum among its cells
  (every column is an "innermost column"); an explicit `Table(width=…)` is part of the structure;
* columns: every item is a column of its own (side by side, with the padding between neighbours);
* a tree: four cells of guide per level plus the label;
* groups and the transparent wrappers: the largest minimum among the children;
* rule, bar, progress bar: one cell. -/
def smin (cw : Char → Nat) : R → Nat
  | .text t => charRoom cw t.plain
  | .str t => charRoom cw t.plain
  | .padding p _ c => p.left + p.right + smin cw c
  | .panel o c =>
    let pad := match unpackPad o.padding with | .ok p => p.left + p.right | .error _ => 0
    max (2 + pad + smin cw c) (if o.title.isEmpty then 2 else 4)
  | .align _ c => smin cw c
  | .constrain _ c => smin cw c
  | .styled c => smin cw c
  | .cast c => smin cw c
  | .opaque c => smin cw c
  | .group _ items => max 1 (sminMax cw items)
  | .rule _ => 1
  | .bar _ => 1
  | .progressBar _ => 1
  | .table o cols =>
    max 1 (max (tableExtra o cols.length + sminCols cw o cols) (o.width.getD 0))
  | .columns o items =>
    let pad := match unpackPad o.lay.padding with | .ok p => max p.left p.right | .error _ => 0
    max 1 (sminSum cw items + pad * (items.length - 1))
  | .tree root => sminNode cw 0 root
def sminMax (cw : Char → Nat) : List R → Nat
  | [] => 0
  | r :: rs => max (smin cw r) (sminMax cw rs)
def sminSum (cw : Char → Nat) : List R → Nat
  | [] => 0
  | r :: rs => max 1 (smin cw r) + sminSum cw rs
def sminCol (cw : Char → Nat) (o : TableOpts) : Col → Nat
  | .mk _ h f cells =>
    o.padding.left + o.padding.right
      + max 1 (max (if o.showHeader then smin cw h else 0) (max (if o.showFooter then smin cw f else 0) (sminMax cw cells)))
def sminCols (cw : Char → Nat) (o : TableOpts) : List Col → Nat
  | [] => 0
  | c :: cs => sminCol cw o c + sminCols cw o cs
def sminNode (cw : Char → Nat) (depth : Nat) : TNode → Nat
  | .mk label _ e ch => max (4 * depth + smin cw label) (if e then sminNodes cw (depth + 1) ch else 0)
def sminNodes (cw : Char → Nat) (depth : Nat) : List TNode → Nat
  | [] => 0
  | n :: ns => max (sminNode cw depth n) (sminNodes cw depth ns)
end

end RichModel.Layout
