import RichModel.Model.Theme
import RichModel.Model.ThemeThreads
/-
Third layer of the theme model (property C20, deepening round 4): `ThemeContext` **objects with identity**.

`console.use_theme(t, inherit=i)` only *constructs* a `ThemeContext` (console.py: `__init__` stores
`console`, `theme`, `inherit`); nothing is pushed until `__enter__`.  The object can therefore be kept in
a variable and used again:

    ctx = console.use_theme(t)
    with ctx:
        with ctx:          # re-entered while it is active
            ...
    with ctx: ...          # used again afterwards

`__enter__` is `self.console.push_theme(self.theme, inherit=self.inherit)`, `__exit__` is
`self.console.pop_theme()`: the object has **no mutable state** — no "am I entered" flag, no saved stack
depth.  The model makes that explicit: a history names its context objects by an index `c` into a store
`env` of the immutable fields, and `with c:` reads the store.  A variant that keeps per-object state is
*not* the code; `runGOps` below models the most natural such variant (an `entered` flag: `__exit__` pops
only when the flag is set and clears it) solely so that Props/C20 can exhibit how it breaks re-entry.
-/
namespace RichModel.Theme

variable {σ : Type}

/-- The fields `ThemeContext.__init__` stores (the console is the one the history runs on). -/
structure CtxObj (σ : Type) where
  theme : Theme σ
  inherit : Bool

/-- The object store: context object number `c` (created earlier by `console.use_theme(...)`). -/
abbrev CtxEnv (σ : Type) := Nat → CtxObj σ

/-- Statements of a history in which `use_theme` results are first-class objects. -/
inductive COp (σ : Type) where
  | push (theme : Theme σ) (inherit : Bool)     -- console.push_theme(theme, inherit=…)
  | pop                                         -- console.pop_theme()
  | raise                                       -- user code raises
  | withC (c : Nat) (body : List (COp σ))       -- `with ctx_c: body` — the same object `c` may be active already

mutual
/-- One statement; `f` is the variant flag of `ctxEnter` (`false` = the code in /repo). -/
def runCOp (f : Bool) (env : CtxEnv σ) : COp σ → Stack σ → Stack σ × Outcome
  | .push t i, st =>
    match pushTheme st t i with
    | .ok st' => (st', .normal)
    | .error e => (st, .raised e)
  | .pop, st =>
    match popTheme st with
    | .ok st' => (st', .normal)
    | .error e => (st, .raised e)
  | .raise, st => (st, .raised .userError)
  | .withC c body, st =>
    match ctxEnter f st (env c).theme (env c).inherit with     -- `ctx_c.__enter__()`
    | .error e => (st, .raised e)
    | .ok st1 =>
      match runCOps f env body st1 with
      | (st2, out) =>
        match ctxExit st2 with                                 -- `ctx_c.__exit__(…)`: pops, whatever `c` is
        | .ok st3 => (st3, out)
        | .error e => (st2, .raised e)
def runCOps (f : Bool) (env : CtxEnv σ) : List (COp σ) → Stack σ → Stack σ × Outcome
  | [], st => (st, .normal)
  | op :: rest, st =>
    match runCOp f env op st with
    | (st', .normal) => runCOps f env rest st'
    | r => r
end

mutual
/-- Forget identity: every `with ctx_c:` becomes `with console.use_theme(ctx_c.theme, inherit=ctx_c.inherit):`
on a fresh object. -/
def eraseOp (env : CtxEnv σ) : COp σ → Op σ
  | .push t i => .push t i
  | .pop => .pop
  | .raise => .raise
  | .withC c body => .use (env c).theme (env c).inherit (eraseOps env body)
def eraseOps (env : CtxEnv σ) : List (COp σ) → List (Op σ)
  | [] => []
  | op :: rest => eraseOp env op :: eraseOps env rest
end

/-! ### flat steps on context objects: `ctx_c.__enter__()` / `ctx_c.__exit__(…)` called by hand -/

inductive CStep where
  | enterC (c : Nat)     -- ctx_c.__enter__()
  | exitC (c : Nat)      -- ctx_c.__exit__(None, None, None)
  | pop                  -- console.pop_theme()
deriving Repr, DecidableEq

/-- the `FStep` a step on an object is (the object only supplies `theme` / `inherit` to `__enter__`) -/
def CStep.toF (env : CtxEnv σ) : CStep → FStep σ
  | .enterC c => .enter (env c).theme (env c).inherit
  | .exitC _ => .exit
  | .pop => .pop

/-! ### a variant that is NOT the code: `ThemeContext` with an `entered` flag

`__enter__`: push, `self._entered = True`; `__exit__`: `if self._entered: pop; self._entered = False`.
Each step in its own `try` (state unchanged on error).  `E` = the objects whose flag is set. -/
def applyG (env : CtxEnv σ) : CStep → Stack σ × List Nat → Stack σ × List Nat
  | .enterC c, (st, E) =>
    match pushTheme st (env c).theme (env c).inherit with
    | .ok s => (s, if E.contains c then E else c :: E)
    | .error _ => (st, E)
  | .exitC c, (st, E) =>
    if E.contains c then
      match popTheme st with
      | .ok s => (s, E.erase c)
      | .error _ => (st, E)
    else (st, E)
  | .pop, (st, E) =>
    match popTheme st with
    | .ok s => (s, E)
    | .error _ => (st, E)

def runG (env : CtxEnv σ) : List CStep → Stack σ × List Nat → Stack σ × List Nat
  | [], s => s
  | c :: rest, s => runG env rest (applyG env c s)

end RichModel.Theme
