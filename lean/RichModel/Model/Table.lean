import RichModel.Model.Cells
import RichModel.Model.Ratio
/-
Model of rich/table.py (`Table._extra_width`, `_get_padding_width`, `_get_cells`, `_measure_column`,
`_calculate_column_widths`, `_render`, `__rich_console__`) and of the row builders of rich/box.py
(`Box.__init__`, `get_top`, `get_row`, `get_bottom`).  Import-free apart from the other models.

Cells are ORACLES (see Model/TABLE_API.md): the table never looks inside a cell, it only
  * measures it      — `Measurement.get(console, padded_cell, w)`                      → `Cell.measure w`
  * renders it       — `console.render_lines(padded_cell, options.update(width=w, …))` → `Cell.renderLines w`
where `padded_cell` is what `Table._get_cells` yields (the cell wrapped in `Padding` when any padding is set).
Styles are not modelled: a line is the list of its characters.

Every definition mirrors the Python statement by statement; quirks are kept (`_range.maximum or 1`,
the stale `table_width` after re-measuring, `box_segments[0 if first else (2 if last else 1)]`, …).
Widths are `Int` while they are being solved (Python ints; intermediate values can be negative) and
become `Nat` (`Int.toNat`, which is what `str * n` does with a negative `n`) when lines are built.
-/
namespace RichModel

/-! ### rich/box.py -/

/-- One line of a box literal: exactly four characters. -/
structure BoxRow where
  l : Char   -- left
  h : Char   -- horizontal (line 2/4/7: unused `_`)
  d : Char   -- divider / vertical / cross
  r : Char   -- right
deriving Repr, DecidableEq

/-- `Box.__init__`: eight lines `top, head, head_row, mid, row, foot_row, foot, bottom`. -/
structure Box where
  top : BoxRow
  head : BoxRow
  headRow : BoxRow
  mid : BoxRow
  row : BoxRow
  footRow : BoxRow
  foot : BoxRow
  bottom : BoxRow
deriving Repr, DecidableEq

def BoxRow.ofList? : List Char → Option BoxRow
  | [a, b, c, d] => some ⟨a, b, c, d⟩
  | _ => none          -- Python: ValueError (too many / not enough values to unpack)

/-- `line1, …, line8 = box.splitlines()` then four characters per line; `none` = the `ValueError`
Python raises when a line count / character count is off. -/
def Box.ofLines? : List (List Char) → Option Box
  | [l1, l2, l3, l4, l5, l6, l7, l8] => do
    let top ← BoxRow.ofList? l1
    let head ← BoxRow.ofList? l2
    let headRow ← BoxRow.ofList? l3
    let mid ← BoxRow.ofList? l4
    let row ← BoxRow.ofList? l5
    let footRow ← BoxRow.ofList? l6
    let foot ← BoxRow.ofList? l7
    let bottom ← BoxRow.ofList? l8
    some { top, head, headRow, mid, row, footRow, foot, bottom }
  | _ => none

/-- `"".join` of parts with a separator between consecutive parts (the `loop_last` idiom). -/
def joinSep (sep : List Char) : List (List Char) → List Char
  | [] => []
  | [x] => x
  | x :: y :: rest => x ++ sep ++ joinSep sep (y :: rest)

/-- The four levels of `Box.get_row`. -/
inductive RowLevel | head | row | mid | foot
deriving Repr, DecidableEq

/-- `(left, horizontal, cross, right)` chosen by `Box.get_row` (note `mid` uses a blank horizontal). -/
def Box.levelChars (b : Box) : RowLevel → BoxRow
  | .head => b.headRow
  | .row => b.row
  | .mid => ⟨b.mid.l, ' ', b.mid.d, b.mid.r⟩
  | .foot => b.footRow

/-! ### the lines of a table body -/

inductive LineTag
  | top | bottom | headSep | footSep | rowSep | midSep
  | cell (row : Nat) (lineNo : Nat)
deriving Repr, DecidableEq

/-- One emitted line (text up to, not including, the `new_line` segment) with its structure kept:
`text = (left ++ joinSep sep parts ++ right)` repeated `rep` times (`rep ≠ 1` only for the
`get_row(widths, "mid") * leading` line of the unrepaired code). -/
structure BodyLine where
  tag : LineTag
  left : List Char
  parts : List (List Char)
  sep : List Char
  right : List Char
  rep : Nat := 1
deriving Repr, DecidableEq

def BodyLine.once (l : BodyLine) : List Char := l.left ++ joinSep l.sep l.parts ++ l.right
def BodyLine.text (l : BodyLine) : List Char := (List.replicate l.rep l.once).flatten

/-- `Box.get_top(widths)` / `get_bottom(widths)` / `get_row(widths, level, edge)` as a structured line. -/
def ruleLine (tag : LineTag) (chars : BoxRow) (edge : Bool) (widths : List Nat) : BodyLine :=
  { tag, left := if edge then [chars.l] else [], parts := widths.map (fun w => List.replicate w chars.h),
    sep := [chars.d], right := if edge then [chars.r] else [] }

def Box.getTop (b : Box) (widths : List Nat) : BodyLine := ruleLine .top b.top true widths
def Box.getBottom (b : Box) (widths : List Nat) : BodyLine := ruleLine .bottom b.bottom true widths
def Box.getRow (b : Box) (tag : LineTag) (level : RowLevel) (edge : Bool) (widths : List Nat) : BodyLine :=
  ruleLine tag (b.levelChars level) edge widths

/-! ### cells, columns, the table -/

/-- A cell as the table sees it: two oracles indexed by the width offered (see TABLE_API.md). -/
structure Cell where
  /-- `Measurement.get(console, padded_cell, w)` for `w ≥ 1`. -/
  measure : Nat → Measurement
  /-- plain text of each line of `console.render_lines(padded_cell, options.update(width=w, justify=…,
  no_wrap=…, overflow=…))`; real `render_lines` returns lines of exactly `w` cells. -/
  renderLines : Nat → List (List Char)

instance : Inhabited Cell := ⟨⟨fun _ => ⟨0, 0⟩, fun _ => []⟩⟩

/-- `rich.table.Column` (justify / overflow / styles only reach the cell oracles). -/
structure Column where
  header : Cell
  footer : Cell
  cells : List Cell            -- `column._cells`, in insertion order
  width : Option Int := none
  minWidth : Option Int := none
  maxWidth : Option Int := none
  ratio : Option Int := none
  noWrap : Bool := false

/-- `Column.flexible`: `self.ratio is not None`. -/
def Column.flexible (c : Column) : Bool := c.ratio.isSome

/-- Code-variant flags (`true` = rich 9.10.0 as found, `false` = minimally repaired; all seven are repaired in /repo:
`fix:` commits dd342b5, c798468, b5d172f, 1d61bac, ab98098, f955c6c, 75c2776, in the order of the fields).
* `flexClampZero` (read only when `flexNegative = false`): `true` = the clamp `max(0, width)` that fix ab98098 put on the
  flexible widths, which hands a `ratio=0` column no cell (the re-measure then gives one back and the expanding table is one
  cell too wide); `false` = since fix 75c2776 every flexible column keeps its minimum, `max(minimum, width)`.
* `leadingRepeat`: `_render` emits `get_row(widths, "mid") * leading` as ONE line (F16);
  repaired: `leading` separate blank separator lines.
* `minWidthCapsExpand`: in `_calculate_column_widths` the pad target is `min(min_width - extra, max_width)`
  whenever `min_width` is set, even for an expanding table (so `expand=True, min_width=10` does not expand);
  repaired: the target is `max_width` when the table expands.
* `fixedRawMaximum`: with ratio columns, the width reserved for the other columns is `sum(_range.maximum)` although
  those columns get `_range.maximum or 1`; a column measuring 0 (empty cells, no padding) therefore pushes the table
  one cell over, the collapse + re-measure then shrink the ratio columns to their content and the "expanding" table
  ends up at its natural width; repaired: reserve `_range.maximum or 1`.
* `noColumnsAsserts`: `_calculate_column_widths` of a table WITHOUT columns goes on to `ratio_distribute(…, [])`, whose
  `assert total_ratio > 0` fails when the table expands / has a `width` / `min_width`; repaired: `return []` at once.
* `flexNegative`: the flexible widths are used as `ratio_distribute` returns them — a trailing zero-ratio column is handed
  *what is left*, which is negative when there is no room (`ratio_distribute(0, [1, 0], [1, 1]) = [1, -1]`), so the widths
  can sum to 0 and the final `ratio_distribute` asserts; repaired: `max(0, width)`.
* `staleTableWidth`: after the collapse block re-measures the columns, `table_width` is NOT recomputed; the padding block then
  sees the pre-re-measure total (`= max_width`), so an expanding table whose columns shrank on the re-measure (a ratio
  column that was handed its flex minimum, a nested renderable) is left narrower than asked; repaired: `table_width = sum(widths)`
  after the re-measure.
(`Flags.today` — the name dates from before the fixes — is rich 9.10.0 as found; `Flags.repaired` repairs the first three only —
the state other properties' witnesses were written against; `Flags.allRepaired` repairs every flag, `flexClampZero` included.) -/
structure Flags where
  leadingRepeat : Bool := true
  minWidthCapsExpand : Bool := true
  fixedRawMaximum : Bool := true
  noColumnsAsserts : Bool := true
  flexNegative : Bool := true
  staleTableWidth : Bool := true
  flexClampZero : Bool := true
deriving Repr, DecidableEq

def Flags.today : Flags := {}
def Flags.repaired : Flags := { leadingRepeat := false, minWidthCapsExpand := false, fixedRawMaximum := false }
def Flags.allRepaired : Flags :=
  { leadingRepeat := false, minWidthCapsExpand := false, fixedRawMaximum := false, noColumnsAsserts := false, flexNegative := false, staleTableWidth := false,
    flexClampZero := false }

structure Table where
  columns : List Column
  /-- `row.end_section` of `table.rows`, in insertion order. -/
  rowEndSection : List Bool := []
  box : Option Box := none
  showHeader : Bool := true
  showFooter : Bool := false
  showEdge : Bool := true
  showLines : Bool := false
  leading : Int := 0
  /-- `Padding.unpack(padding)`: (top, right, bottom, left). -/
  padding : Int × Int × Int × Int := (0, 1, 0, 1)
  padEdge : Bool := true
  collapsePadding : Bool := false
  /-- `self._expand` -/
  expandFlag : Bool := false
  width : Option Int := none
  minWidth : Option Int := none
  /-- `console.render(title Text, options.update(width=w, justify=title_justify))` split into plain lines;
  `none` = falsy title. -/
  title : Option (Nat → List (List Char)) := none
  caption : Option (Nat → List (List Char)) := none

/-- `Table.expand`: `self._expand or self.width is not None`. -/
def Table.expand (t : Table) : Bool := t.expandFlag || t.width.isSome

/-- `Table._extra_width`. -/
def Table.extraWidth (t : Table) : Int :=
  (if t.box.isSome && t.showEdge then 2 else 0) + (if t.box.isSome then (t.columns.length : Int) - 1 else 0)

/-- `Table._get_padding_width(column_index)` (ignores `pad_edge`, as the code does). -/
def Table.paddingWidth (t : Table) (idx : Nat) : Int :=
  let padRight := t.padding.2.1
  let padLeft := t.padding.2.2.2
  let padLeft := if t.collapsePadding && idx > 0 then max 0 (padLeft - padRight) else padLeft
  padLeft + padRight

/-- `add_padding` inside `Table._get_cells`: the `(top, right, bottom, left)` handed to `Padding`, or
`none` when `not any(padding)` (the cell is then used unwrapped). -/
def Table.cellPadding (t : Table) (firstColumn lastColumn firstRow lastRow : Bool) : Option (Int × Int × Int × Int) :=
  let (top, right, bottom, left) := t.padding
  if top == 0 && right == 0 && bottom == 0 && left == 0 then none
  else
    let left := if t.collapsePadding && !firstColumn then max 0 (left - right) else left
    let bottom := if t.collapsePadding && !lastRow then max 0 (top - bottom) else bottom
    let left := if !t.padEdge && firstColumn then 0 else left
    let right := if !t.padEdge && lastColumn then 0 else right
    let top := if !t.padEdge && firstRow then 0 else top
    let bottom := if !t.padEdge && lastRow then 0 else bottom
    some (top, right, bottom, left)

/-- The renderables `Table._get_cells` yields for a column: header (if shown), the cells, footer (if shown). -/
def Table.getCells (t : Table) (c : Column) : List Cell :=
  (if t.showHeader then [c.header] else []) ++ c.cells ++ (if t.showFooter then [c.footer] else [])

/-- `x or 1` on an int. -/
def orOne (x : Int) : Int := if x == 0 then 1 else x

/-- `Table._measure_column(console, column, max_width)`. -/
def Table.measureColumn (t : Table) (idx : Nat) (c : Column) (maxWidth : Int) : Measurement :=
  if maxWidth < 1 then ⟨0, 0⟩
  else
    let pw := t.paddingWidth idx
    match c.width with
    | some w => (Measurement.mk (w + pw) (w + pw)).withMaximum maxWidth
    | none =>
      let ms := (t.getCells c).map (fun cell => cell.measure maxWidth.toNat)
      let m : Measurement :=
        { minimum := if ms.isEmpty then 1 else listMax (ms.map (·.minimum)),
          maximum := if ms.isEmpty then maxWidth else listMax (ms.map (·.maximum)) }
      (m.withMaximum maxWidth).clamp (c.minWidth.map (· + pw)) (c.maxWidth.map (· + pw))

/-- `for index, column in enumerate(columns): if column.flexible: widths[index] = fixed_widths[index] + next(iter_flex_widths)`;
`none` = `StopIteration` (cannot happen: one flex width per flexible column). -/
def mergeFlex : List (Column × Int × Int) → List Int → Option (List Int)
  | [], _ => some []
  | (c, w, fixed) :: rest, flex =>
    if c.flexible then
      match flex with
      | [] => none
      | f :: flex' => (mergeFlex rest flex').map ((fixed + f) :: ·)
    else (mergeFlex rest flex).map (w :: ·)

/-- `enumerate(columns)` -/
def Table.indexed (t : Table) : List (Column × Nat) := t.columns.zipIdx

/-- First phase of `_calculate_column_widths`: measure every column at `max_width`, `maximum or 1`, and the
flexible (ratio) columns of an expanding table.  `none` = `AssertionError` of `ratio_distribute`. -/
def Table.firstWidths (fl : Flags) (t : Table) (maxWidth : Int) : Option (List Int) :=
  let cols := t.indexed
  let ranges := cols.map (fun ci => t.measureColumn ci.2 ci.1 maxWidth)
  let widths := ranges.map (fun r => orOne r.maximum)
  if t.expand then
    let flex := cols.filter (fun ci => ci.1.flexible)
    let ratios := flex.map (fun ci => ci.1.ratio.getD 0)
    if ratios.any (· != 0) then
      let fixed := (ranges.zip cols).map (fun rc => if rc.2.1.flexible then 0 else if fl.fixedRawMaximum then rc.1.maximum else orOne rc.1.maximum)
      let flexMinimum := flex.map (fun ci => orOne (ci.1.width.getD 0) + t.paddingWidth ci.2)
      let flexibleWidth := maxWidth - fixed.sum
      match ratioDistribute flexibleWidth ratios (some flexMinimum) with
      | none => none
      | some flexWidths =>
        let flexWidths := if fl.flexNegative then flexWidths
          else if fl.flexClampZero then flexWidths.map (fun w => max 0 w)
          else (flexMinimum.zip flexWidths).map (fun mw => max mw.1 mw.2)
        mergeFlex (t.columns.zip (widths.zip fixed)) flexWidths
    else some widths
  else some widths

/-- `[(column.width is None and not column.no_wrap) for column in columns]` -/
def Table.wrapable (t : Table) : List Bool := t.columns.map (fun c => c.width.isNone && !c.noWrap)

/-- The `if table_width > max_width:` block up to (not including) the re-measure: collapse, then the
last-resort `ratio_reduce`.  Returns the widths and `table_width`. -/
def Table.shrinkPre (t : Table) (widths : List Int) (maxWidth : Int) : List Int × Int :=
  let widths1 := collapseWidths widths t.wrapable maxWidth
  let tableWidth1 := widths1.sum
  if tableWidth1 > maxWidth then
    let excess := tableWidth1 - maxWidth
    let w := ratioReduce excess (List.replicate widths1.length 1) widths1 widths1
    (w, w.sum)
  else (widths1, tableWidth1)

/-- The re-measure: every column measured again at its own reduced width, `maximum or 1`. -/
def Table.remeasure (t : Table) (widths : List Int) : List Int :=
  (widths.zip t.indexed).map (fun wc => orOne (t.measureColumn wc.2.2 wc.2.1 wc.1).maximum)

/-- The whole `if table_width > max_width:` block.  Returns the new widths and the (stale: computed
before the re-measure) `table_width` the code carries on with. -/
def Table.shrinkWidths (t : Table) (widths : List Int) (maxWidth : Int) : List Int × Int :=
  let pre := t.shrinkPre widths maxWidth
  (t.remeasure pre.1, pre.2)

/-- `(table_width < max_width and self.expand) or (self.min_width is not None and table_width < (self.min_width - extra_width))` -/
def Table.padCond (t : Table) (tableWidth maxWidth : Int) : Bool :=
  (decide (tableWidth < maxWidth) && t.expand) ||
    (match t.minWidth with
     | some m => decide (tableWidth < m - t.extraWidth)
     | none => false)

/-- `_max_width = max_width if self.min_width is None else min(self.min_width - extra_width, max_width)`
(repaired: `max_width` also when the table expands). -/
def Table.padTarget (fl : Flags) (t : Table) (maxWidth : Int) : Int :=
  match t.minWidth with
  | none => maxWidth
  | some m => if !fl.minWidthCapsExpand && t.expand then maxWidth else min (m - t.extraWidth) maxWidth

/-- The final padding block of `_calculate_column_widths`. -/
def Table.padWidths (fl : Flags) (t : Table) (widths : List Int) (tableWidth maxWidth : Int) : Option (List Int) :=
  if t.padCond tableWidth maxWidth then
    match ratioDistribute (t.padTarget fl maxWidth - tableWidth) widths none with
    | none => none
    | some pads => some ((widths.zip pads).map (fun p => p.1 + p.2))
  else some widths

/-- `Table._calculate_column_widths(console, max_width)`; `none` = `AssertionError` from `ratio_distribute`. -/
def Table.calcWidths (fl : Flags) (t : Table) (maxWidth : Int) : Option (List Int) :=
  if !fl.noColumnsAsserts && t.columns.isEmpty then some [] else
  match t.firstWidths fl maxWidth with
  | none => none
  | some widths =>
    if widths.sum > maxWidth then
      let sw := t.shrinkWidths widths maxWidth
      t.padWidths fl sw.1 (if fl.staleTableWidth then sw.2 else sw.1.sum) maxWidth
    else t.padWidths fl widths widths.sum maxWidth

/-- `Table.__rich_measure__(console, max_width)` (table.py:268-291); `none` = the `AssertionError` of `ratio_distribute`.
(Not `Measurement.get`: that post-processes with `Measurement.getPost`.) -/
def Table.richMeasure (fl : Flags) (t : Table) (maxWidth : Int) : Option Measurement :=
  let maxWidth := t.width.getD maxWidth
  if maxWidth < 0 then some ⟨0, 0⟩
  else
    let extra := t.extraWidth
    match t.calcWidths fl (maxWidth - extra) with
    | none => none
    | some ws =>
      let mw := ws.sum
      let ms := t.indexed.map (fun ci => t.measureColumn ci.2 ci.1 mw)
      let minimum := (ms.map (·.minimum)).sum + extra
      let maximum := match t.width with
        | none => (ms.map (·.maximum)).sum + extra
        | some tw => tw
      some ((Measurement.mk minimum maximum).clamp t.minWidth none)

/-! ### `_render` -/

/-- `Segment.set_shape(lines, width, height)` on plain single-segment lines: every line is
`adjust_line_length`ed (= `set_cell_size` on a one-segment line) and blank lines are appended up to
`height` (`zip_longest`: a taller cell is never cut). -/
def shapeCell (cw : Char → Nat) (w h : Nat) (lines : List (List Char)) : List (List Char) :=
  lines.map (fun l => setCellSize cw l w) ++ List.replicate (h - lines.length) (List.replicate w ' ')

/-- `max_height = max(1, len(lines) …)`. -/
def rowHeight (rendered : List (List (List Char))) : Nat := rendered.foldl (fun m l => max m l.length) 1

/-- The shaped cells of one row: `zip(widths, row_cell)`, render each at its width, `set_shape` to the row height. -/
def shapeRow (cw : Char → Nat) (widths : List Nat) (row : List Cell) : Nat × List (List (List Char)) :=
  let rendered := (widths.zip row).map (fun wc => wc.2.renderLines wc.1)
  let h := rowHeight rendered
  (h, (widths.zip rendered).map (fun wl => shapeCell cw wl.1 h wl.2))

/-- `list(zip(*_column_cells))`: row `i` for `i < min length` (no columns: no rows). -/
def zipRows (cols : List (List Cell)) : List (List Cell) :=
  match cols with
  | [] => []
  | c :: cs =>
    let n := cs.foldl (fun m l => min m l.length) c.length
    (List.range n).map (fun i => cols.map (fun l => l.getD i default))

/-- The vertical characters `box_segments[0 if first else (2 if last else 1)]` picks; the list is
`[head, foot, mid]`, so a middle row gets the *foot* characters and the last row the *mid* ones. -/
def Box.rowChars (b : Box) (first last : Bool) : BoxRow :=
  if first then b.head else if last then b.mid else b.foot

/-- Line `k` of the row at `index`: the edge / divider characters and, per column, line `k` of the shaped cell. -/
def Table.cellLine (cw : Char → Nat) (t : Table) (widths : List Nat) (first last : Bool) (index : Nat) (row : List Cell)
    (k : Nat) : BodyLine :=
  let parts := (shapeRow cw widths row).2.map (fun c => c.getD k [])
  match t.box with
  | some b =>
    let ch := b.rowChars first last
    { tag := .cell index k, left := if t.showEdge then [ch.l] else [], parts := parts,
      sep := [ch.d], right := if t.showEdge then [ch.r] else [] }
  | none => { tag := .cell index k, left := [], parts := parts, sep := [], right := [] }

/-- `if _box and last and show_footer: yield get_row(widths, "foot")` (before the row's lines). -/
def Table.footSep (t : Table) (widths : List Nat) (last : Bool) : List BodyLine :=
  match t.box with
  | some b => if last && t.showFooter then [b.getRow .footSep .foot t.showEdge widths] else []
  | none => []

/-- `if _box and first and show_header: yield get_row(widths, "head")` (after the row's lines). -/
def Table.headSep (t : Table) (widths : List Nat) (first : Bool) : List BodyLine :=
  match t.box with
  | some b => if first && t.showHeader then [b.getRow .headSep .head t.showEdge widths] else []
  | none => []

/-- `_box and (show_lines or leading or end_section)` and not after the last row, not before a footer,
not after the header (the condition under which `_render` draws a separator after the row at `index`). -/
def Table.sepWanted (t : Table) (n index : Nat) (first last : Bool) : Bool :=
  let headerRow := first && t.showHeader
  let footerRow := last && t.showFooter
  let endSection := if !headerRow && !footerRow then t.rowEndSection.getD (index - (if t.showHeader then 1 else 0)) false else false
  (t.showLines || t.leading != 0 || endSection)
    && !last && !(t.showFooter && index + 2 ≥ n) && !(t.showHeader && headerRow)

/-- The separator itself: `get_row(widths, "mid") * leading` when `leading` is set (ONE line in the code as it
stands, `leading` lines when repaired), else `get_row(widths, "row")`. -/
def Table.sepLines (fl : Flags) (t : Table) (b : Box) (widths : List Nat) : List BodyLine :=
  if t.leading != 0 then
    if fl.leadingRepeat then [{ b.getRow .midSep .mid t.showEdge widths with rep := t.leading.toNat }]
    else List.replicate t.leading.toNat (b.getRow .midSep .mid t.showEdge widths)
  else [b.getRow .rowSep .row t.showEdge widths]

def Table.between (fl : Flags) (t : Table) (widths : List Nat) (n index : Nat) (first last : Bool) : List BodyLine :=
  match t.box with
  | some b => if t.sepWanted n index first last then t.sepLines fl b widths else []
  | none => []

/-- Everything `_render` emits for the row at `index` of `n` rows. -/
def Table.renderRow (fl : Flags) (cw : Char → Nat) (t : Table) (widths : List Nat) (n index : Nat) (row : List Cell) :
    List BodyLine :=
  let first := index == 0
  let last := index + 1 == n
  t.footSep widths last
    ++ (List.range (shapeRow cw widths row).1).map (t.cellLine cw widths first last index row)
    ++ t.headSep widths first ++ t.between fl widths n index first last

/-- `Table._render(console, options, widths)` as structured lines. -/
def Table.renderBody (fl : Flags) (cw : Char → Nat) (t : Table) (widths : List Nat) : List BodyLine :=
  let rows := zipRows (t.columns.map t.getCells)
  let n := rows.length
  let top := match t.box with
    | some b => if t.showEdge then [b.getTop widths] else []
    | none => []
  let bottom := match t.box with
    | some b => if t.showEdge then [b.getBottom widths] else []
    | none => []
  top ++ (rows.zipIdx.flatMap (fun ri => t.renderRow fl cw widths n ri.2 ri.1)) ++ bottom

/-- What `Table.__rich_console__` produces at `options.max_width = avail`. -/
structure Rendered where
  widths : List Int
  title : List (List Char)
  body : List BodyLine
  caption : List (List Char)

def Rendered.lines (r : Rendered) : List (List Char) := r.title ++ r.body.map (·.text) ++ r.caption

/-- `Table.__rich_console__(console, options)` with `options.max_width = avail`. -/
def Table.render (fl : Flags) (cw : Char → Nat) (t : Table) (avail : Int) : Option Rendered :=
  let maxWidth := t.width.getD avail
  let extra := t.extraWidth
  match t.calcWidths fl (maxWidth - extra) with
  | none => none
  | some widths =>
    let tableWidth := widths.sum + extra
    some { widths,
           title := match t.title with | some f => f tableWidth.toNat | none => [],
           body := t.renderBody fl cw (widths.map Int.toNat),
           caption := match t.caption with | some f => f tableWidth.toNat | none => [] }

end RichModel
