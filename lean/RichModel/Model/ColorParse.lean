import RichModel.Model.ColorCore
import RichModel.Gen.ColorNames
/-
Model of `Color.parse` (rich/color.py:389-440) with `RE_COLOR` (color.py:250-257) as a hand-written
scanner and `ANSI_COLOR_NAMES` as the table translated from the source on every run
(`Gen/ColorNames.lean`, produced by harness/gen/color_names.py).

Import-free apart from `RichModel.Model.*` / `RichModel.Gen.*` (the driver links natively).

MODELLED DOMAIN.  Python's `str.lower()`, `str.strip()`, `str.split()`, `\d`, `\s` and `int()` are
Unicode-aware.  This file models them for **ASCII text only** (`AsciiStr.allAscii`); for a string with
a code point >= 128 the driver answers `unmodelled`.  Inside ASCII the model is exact, including the
four separators U+001C..U+001F, which `str.isspace`/`str.split`/`str.strip`/`\s` treat as white
space but `int()` does not.

`functools.lru_cache` on `Color.parse` is assumed transparent (the function is pure).
-/
namespace RichModel

/-- `cl! "abc"` is the `List Char` literal `['a','b','c']` (Python `str` = list of code points). -/
macro "cl! " s:str : term => do
  let elems := s.getString.toList.toArray.map fun c => Lean.Syntax.mkCharLit c
  `([$elems,*])

/-- The exceptions that can leave `Color.parse` / `Style.parse` / `Style.__init__` / `Style.chain`. -/
inductive StyleErr where
  /-- `rich.color.ColorParseError` -/
  | colorParse
  /-- `rich.errors.StyleSyntaxError` -/
  | styleSyntax
  /-- `ValueError` out of `int()` in the `rgb(...)` branch (color.py:435) -/
  | valueError
  /-- `StopIteration` out of `next(iter_styles)` on an empty iterable (style.py:541/554) -/
  | stopIteration
deriving Repr, BEq, DecidableEq, Inhabited

/-- Which variant of the code is modelled.  `true` = the behaviour of rich 9.10.0 as it stood when
the defect was found, `false` = the minimally repaired behaviour, which /repo contains now (`fix:` commits c34676b, a639ea2,
cf948b2; the diffs under /verif/pending_fixes were their proposals).
The harness passes the flags that match the working tree (`# CODE VARIANT FLAGS` in
harness/props/c06.py). -/
structure StyleVariant where
  /-- F9 (property C14): `int('')` in `rgb(1,,2)` escapes as `ValueError`; repaired: `ColorParseError`. -/
  rgbValueError : Bool
  /-- F3: `__add__` stores the right operand's hash (style.py:655); repaired: hash of the new fields. -/
  addHash : Bool
  /-- F4: `from_color` hashes `(color, bgcolor, None, None, None)` (style.py:195); repaired: `(…, 0, 0, None)`. -/
  fromColorHash : Bool
  /-- F5: `without_color` copies the old hash (style.py:400); repaired: hash of the new fields. -/
  withoutColorHash : Bool
  /-- F6: `update_link` copies the old hash (style.py:595); repaired: hash of the new fields. -/
  updateLinkHash : Bool
  /-- F26: `update_link` copies the cached `_style_definition` (style.py:588), so `str()` of the
  result can be the definition of the *old* style; repaired: cache cleared. -/
  updateLinkDef : Bool
deriving Repr, BEq, DecidableEq

/-- rich 9.10.0 as found. -/
def StyleVariant.old : StyleVariant := ⟨true, true, true, true, true, true⟩
/-- All repairs applied. -/
def StyleVariant.fixed : StyleVariant := ⟨false, false, false, false, false, false⟩

/-! ### Python `str` methods on ASCII text -/
namespace AsciiStr

/-- The modelled domain: every code point below 128. -/
def allAscii (s : List Char) : Bool := s.all fun c => c.toNat < 128

/-- `str.isspace` / regex `\s` on ASCII: TAB LF VT FF CR, FS GS RS US, SPACE. -/
def isSpace (c : Char) : Bool :=
  (9 ≤ c.toNat && c.toNat ≤ 13) || (28 ≤ c.toNat && c.toNat ≤ 32)

/-- C `isspace` as used by `int()` on an ASCII string: TAB LF VT FF CR SPACE (not U+001C..U+001F). -/
def isIntSpace (c : Char) : Bool :=
  (9 ≤ c.toNat && c.toNat ≤ 13) || c.toNat == 32

/-- `[0-9]`, and `\d` / `str.isdecimal` on ASCII. -/
def isDigit (c : Char) : Bool := 48 ≤ c.toNat && c.toNat ≤ 57

/-- `str.lower()` on one ASCII character. -/
def lowerChar (c : Char) : Char :=
  if 65 ≤ c.toNat ∧ c.toNat ≤ 90 then Char.ofNat (c.toNat + 32) else c

/-- `str.lower()` (ASCII). -/
def lower (s : List Char) : List Char := s.map lowerChar

/-- `str.lstrip()`. -/
def lstrip (s : List Char) : List Char := s.dropWhile isSpace
/-- `str.rstrip()`. -/
def rstrip (s : List Char) : List Char := (s.reverse.dropWhile isSpace).reverse
/-- `str.strip()`. -/
def strip (s : List Char) : List Char := rstrip (lstrip s)

/-- Loop of `str.split()` (no argument): `cur` is the word being collected. -/
def splitAux : List Char → List Char → List (List Char)
  | [], cur => if cur.isEmpty then [] else [cur]
  | c :: r, cur =>
    if isSpace c then (if cur.isEmpty then splitAux r [] else cur :: splitAux r [])
    else splitAux r (cur ++ [c])

/-- `str.split()`: maximal runs of non-white-space characters. -/
def split (s : List Char) : List (List Char) := splitAux s []

/-- Loop of `str.split(",")`. -/
def splitCommaAux : List Char → List Char → List (List Char)
  | [], cur => [cur]
  | c :: r, cur => if c == ',' then cur :: splitCommaAux r [] else splitCommaAux r (cur ++ [c])

/-- `str.split(",")`: always at least one (possibly empty) component. -/
def splitComma (s : List Char) : List (List Char) := splitCommaAux s []

/-- `" ".join(words)`. -/
def joinSpace : List (List Char) → List Char
  | [] => []
  | [w] => w
  | w :: rest => w ++ ' ' :: joinSpace rest

/-- `s[len(p):]` if `s.startswith(p)`. -/
def dropPrefix? : List Char → List Char → Option (List Char)
  | [], s => some s
  | _ :: _, [] => none
  | p :: ps, c :: cs => if p == c then dropPrefix? ps cs else none

/-- Value of a run of ASCII decimal digits. -/
def decimalVal (ds : List Char) : Nat := ds.foldl (fun acc d => 10 * acc + (d.toNat - 48)) 0

/-- `int(s)` for an ASCII `s` made of digits and white space only (the only strings the `rgb(...)`
branch can pass): strip C white space, then require a non-empty run of digits.  `none` = `ValueError`.
(Signs and underscores cannot occur: `RE_COLOR` does not let them through.) -/
def pyInt (s : List Char) : Option Nat :=
  let t := ((s.dropWhile isIntSpace).reverse.dropWhile isIntSpace).reverse
  if t.isEmpty then none else if t.all isDigit then some (decimalVal t) else none

end AsciiStr

open AsciiStr

/-! ### `RE_COLOR` -/

/-- `[0-9a-f]` -/
def isHexLower (c : Char) : Bool := isDigit c || (97 ≤ c.toNat && c.toNat ≤ 102)

/-- `int(x, 16)` of one lower-case hex digit. -/
def hexVal (c : Char) : Nat := if isDigit c then c.toNat - 48 else c.toNat - 87

/-- The three groups of `RE_COLOR.match(color).groups()` (exactly one is not `None`). -/
inductive ReColor where
  /-- `\#([0-9a-f]{6})$` -/
  | hex (six : List Char)
  /-- `color\(([0-9]{1,3})\)$` -/
  | color8 (digits : List Char)
  /-- `rgb\(([\d\s,]+)\)$` -/
  | rgb (body : List Char)
deriving Repr, BEq, DecidableEq

/-- `body` if `s == body + ")"`. -/
def dropCloseParen? (s : List Char) : Option (List Char) :=
  match s.reverse with
  | ')' :: r => some r.reverse
  | _ => none

/-- `RE_COLOR.match(s)`.  The three alternatives start with different characters, so their order
does not matter; `$` is end-of-string here because `s` has been stripped (no trailing newline). -/
def matchReColor (s : List Char) : Option ReColor :=
  match s with
  | '#' :: rest => if rest.length == 6 && rest.all isHexLower then some (.hex rest) else none
  | _ =>
    match dropPrefix? (cl! "color(") s with
    | some rest =>
      match dropCloseParen? rest with
      | some ds => if 1 ≤ ds.length && ds.length ≤ 3 && ds.all isDigit then some (.color8 ds) else none
      | none => none
    | none =>
      match dropPrefix? (cl! "rgb(") s with
      | some rest =>
        match dropCloseParen? rest with
        | some body =>
          if 1 ≤ body.length && body.all (fun c => isDigit c || isSpace c || c == ',') then some (.rgb body) else none
        | none => none
      | none => none

/-- `ANSI_COLOR_NAMES.get(color)` on the translated table. -/
def ansiColorNumber (name : List Char) : Option Nat :=
  (Gen.ansiColorNames.find? fun p => p.1 == name).map (·.2)

/-- `ColorType.STANDARD if number < 16 else ColorType.EIGHT_BIT` -/
def numberType (n : Nat) : ColorType := if n < 16 then .standard else .eightBit

/-- Body of `Color.parse` after `color = color.lower().strip()` (color.py:396-440). -/
def Color.parseNorm (v : StyleVariant) (color : List Char) : Except StyleErr Color :=
  if color == cl! "default" then .ok { name := color, type := .default }
  else match ansiColorNumber color with
  | some n => .ok { name := color, type := numberType n, number := some n }
  | none =>
    match matchReColor color with
    | none => .error .colorParse
    | some (.hex six) =>
      match six with
      | [a, b, c, d, e, f] =>
        .ok { name := color, type := .truecolor,
              triplet := some ⟨16 * hexVal a + hexVal b, 16 * hexVal c + hexVal d, 16 * hexVal e + hexVal f⟩ }
      | _ => .error .colorParse   -- unreachable: the scanner returns exactly six characters
    | some (.color8 ds) =>
      if decimalVal ds > 255 then .error .colorParse
      else .ok { name := color, type := numberType (decimalVal ds), number := some (decimalVal ds) }
    | some (.rgb body) =>
      match splitComma body with
      | [red, green, blue] =>
        match pyInt red, pyInt green, pyInt blue with
        | some r, some g, some b =>
          if r ≤ 255 && g ≤ 255 && b ≤ 255 then
            .ok { name := color, type := .truecolor, triplet := some ⟨r, g, b⟩ }
          else .error .colorParse
        | _, _, _ => .error (if v.rgbValueError then .valueError else .colorParse)
      | _ => .error .colorParse

/-- `Color.parse(color)` (color.py:389-440). -/
def Color.parse (v : StyleVariant) (color : List Char) : Except StyleErr Color :=
  Color.parseNorm v (strip (lower color))

end RichModel
