import RichModel.Model.ColorCore
import RichModel.Gen.ColorNames
import RichModel.Gen.StrTables
/-
Model of `Color.parse` (rich/color.py:389-440) with `RE_COLOR` (color.py:250-257) as a hand-written
scanner and `ANSI_COLOR_NAMES` as the table translated from the source on every run
(`Gen/ColorNames.lean`, produced by harness/gen/color_names.py).

Import-free apart from `RichModel.Model.*` / `RichModel.Gen.*` (the driver links natively).

MODELLED DOMAIN.  Python's `str.lower()`, `str.strip()`, `str.split()`, `\d`, `\s` and `int()` are
Unicode-aware.  They enter the model as the parameter `T : StrTables` (which characters are white
space, which are decimal digits and with what value, what each character lower-cases to, the
interpreter's `int()` digit limit).  The theorems hold for **every** `T` satisfying `StrTables.Lawful`
(agreement with the ASCII rules below 128, `lower` idempotent and not creating white space);
`StrTables.ascii` (proved lawful) is the ASCII-only instance that C03/C14/C19 use through the
two-argument `Color.parse v` / `Style.parse v`; `StrTables.real` is built from the tables translated
from the *running* Python on every run (`Gen/StrTables.lean`, harness/gen/str_tables.py) and is what the
C06 driver is compared with on all code points.  Its lawfulness is proved from the generated tables on every build
(`Lemmas/StrTablesReal.lean`, theorem `C06.real_tables_lawful`) and additionally validated exhaustively on every run
(request `tables_lawful`, and the real `str` methods on all code points).  The one thing outside the model: `str.lower()` of a string
containing GREEK CAPITAL SIGMA (final-sigma rule, context dependent) — the driver answers `unmodelled`.

`functools.lru_cache` on `Color.parse` is assumed transparent (the function is pure).
-/
namespace RichModel

/-- `cl! "abc"` is the `List Char` literal `['a','b','c']` (Python `str` = list of code points). -/
macro "cl! " s:str : term => do
  let elems := s.getString.toList.toArray.map fun c => Lean.Syntax.mkCharLit c
  `([$elems,*])

/-- The exceptions that can leave `Color.parse` / `Style.parse` / `Style.__init__` / `Style.chain`. -/
inductive StyleErr where
  /-- `rich.color.ColorParseError` -/
  | colorParse
  /-- `rich.errors.StyleSyntaxError` -/
  | styleSyntax
  /-- `ValueError` out of `int()` in the `rgb(...)` branch (color.py:435) -/
  | valueError
  /-- `StopIteration` out of `next(iter_styles)` on an empty iterable (style.py:541/554) -/
  | stopIteration
deriving Repr, BEq, DecidableEq, Inhabited

/-- Which variant of the code is modelled.  `true` = the behaviour of rich 9.10.0 as it stood when
the defect was found, `false` = the minimally repaired behaviour, which /repo contains now (`fix:` commits c34676b, a639ea2,
cf948b2, c566893; the diffs under /verif/pending_fixes were their proposals).
The harness passes the flags that match the working tree (`# CODE VARIANT FLAGS` in
harness/props/c06.py). -/
structure StyleVariant where
  /-- F9 (property C14): `int('')` in `rgb(1,,2)` escapes as `ValueError`; repaired: `ColorParseError`. -/
  rgbValueError : Bool
  /-- F3: `__add__` stores the right operand's hash (style.py:655); repaired: hash of the new fields. -/
  addHash : Bool
  /-- F4: `from_color` hashes `(color, bgcolor, None, None, None)` (style.py:195); repaired: `(…, 0, 0, None)`. -/
  fromColorHash : Bool
  /-- F5: `without_color` copies the old hash (style.py:400); repaired: hash of the new fields. -/
  withoutColorHash : Bool
  /-- F6: `update_link` copies the old hash (style.py:595); repaired: hash of the new fields. -/
  updateLinkHash : Bool
  /-- F26: `update_link` copies the cached `_style_definition` (style.py:588), so `str()` of the
  result can be the definition of the *old* style; repaired: cache cleared. -/
  updateLinkDef : Bool
  /-- F30: `Style(link="")` / `update_link("")` store the empty string, which every method treats as
  "no link" except `==`/`hash` (so `NULL_STYLE + Style(link="") != Style(link="")`); repaired: an
  empty link is stored as `None`. -/
  emptyLink : Bool
deriving Repr, BEq, DecidableEq

/-- rich 9.10.0 as found. -/
def StyleVariant.old : StyleVariant := ⟨true, true, true, true, true, true, true⟩
/-- The code as it is in /repo now: every repair has been applied (F3–F6, F9, F26, F30 = c566893).
C03 / C19 model the current code with this. -/
def StyleVariant.fixed : StyleVariant := ⟨false, false, false, false, false, false, false⟩
/-- All repairs applied (coincides with `fixed` since F30 landed; both names are kept). -/
def StyleVariant.repaired : StyleVariant := ⟨false, false, false, false, false, false, false⟩

/-! ### Python `str` methods on ASCII text -/
namespace AsciiStr

/-- The modelled domain: every code point below 128. -/
def allAscii (s : List Char) : Bool := s.all fun c => c.toNat < 128

/-- `str.isspace` / regex `\s` on ASCII: TAB LF VT FF CR, FS GS RS US, SPACE. -/
def isSpace (c : Char) : Bool :=
  (9 ≤ c.toNat && c.toNat ≤ 13) || (28 ≤ c.toNat && c.toNat ≤ 32)

/-- C `isspace` as used by `int()` on an ASCII string: TAB LF VT FF CR SPACE (not U+001C..U+001F). -/
def isIntSpace (c : Char) : Bool :=
  (9 ≤ c.toNat && c.toNat ≤ 13) || c.toNat == 32

/-- `[0-9]`, and `\d` / `str.isdecimal` on ASCII. -/
def isDigit (c : Char) : Bool := 48 ≤ c.toNat && c.toNat ≤ 57

/-- `str.lower()` on one ASCII character. -/
def lowerChar (c : Char) : Char :=
  if 65 ≤ c.toNat ∧ c.toNat ≤ 90 then Char.ofNat (c.toNat + 32) else c

/-- `str.lower()` (ASCII). -/
def lower (s : List Char) : List Char := s.map lowerChar

/-- `str.lstrip()`. -/
def lstrip (s : List Char) : List Char := s.dropWhile isSpace
/-- `str.rstrip()`. -/
def rstrip (s : List Char) : List Char := (s.reverse.dropWhile isSpace).reverse
/-- `str.strip()`. -/
def strip (s : List Char) : List Char := rstrip (lstrip s)

/-- Loop of `str.split()` (no argument): `cur` is the word being collected. -/
def splitAux : List Char → List Char → List (List Char)
  | [], cur => if cur.isEmpty then [] else [cur]
  | c :: r, cur =>
    if isSpace c then (if cur.isEmpty then splitAux r [] else cur :: splitAux r [])
    else splitAux r (cur ++ [c])

/-- `str.split()`: maximal runs of non-white-space characters. -/
def split (s : List Char) : List (List Char) := splitAux s []

/-- Loop of `str.split(",")`. -/
def splitCommaAux : List Char → List Char → List (List Char)
  | [], cur => [cur]
  | c :: r, cur => if c == ',' then cur :: splitCommaAux r [] else splitCommaAux r (cur ++ [c])

/-- `str.split(",")`: always at least one (possibly empty) component. -/
def splitComma (s : List Char) : List (List Char) := splitCommaAux s []

/-- `" ".join(words)`. -/
def joinSpace : List (List Char) → List Char
  | [] => []
  | [w] => w
  | w :: rest => w ++ ' ' :: joinSpace rest

/-- `s[len(p):]` if `s.startswith(p)`. -/
def dropPrefix? : List Char → List Char → Option (List Char)
  | [], s => some s
  | _ :: _, [] => none
  | p :: ps, c :: cs => if p == c then dropPrefix? ps cs else none

/-- Value of a run of ASCII decimal digits. -/
def decimalVal (ds : List Char) : Nat := ds.foldl (fun acc d => 10 * acc + (d.toNat - 48)) 0

end AsciiStr

/-! ### The running Python's character tables -/

/-- Facts about `str` of the interpreter.  Every theorem holds for all lawful values. -/
structure StrTables where
  /-- `str.isspace` = regex `\s` = what `str.strip()` / `str.split()` remove -/
  isSpace : Char → Bool
  /-- regex `\d` = `str.isdecimal`: the digit value `int()` gives the character -/
  decimal : Char → Option Nat
  /-- `chr(c).lower()` (one character can lower-case to several) -/
  lowerChar : Char → List Char
  /-- `sys.get_int_max_str_digits()` (0 = no limit) -/
  maxDigits : Nat

namespace StrTables
variable (T : StrTables)

/-- `str.lower()`, character by character. -/
def lower (s : List Char) : List Char := s.flatMap T.lowerChar
/-- `str.lstrip()`. -/
def lstrip (s : List Char) : List Char := s.dropWhile T.isSpace
/-- `str.rstrip()`. -/
def rstrip (s : List Char) : List Char := (s.reverse.dropWhile T.isSpace).reverse
/-- `str.strip()`. -/
def strip (s : List Char) : List Char := T.rstrip (T.lstrip s)

/-- Loop of `str.split()` (no argument): `cur` is the word being collected. -/
def splitAux : List Char → List Char → List (List Char)
  | [], cur => if cur.isEmpty then [] else [cur]
  | c :: r, cur =>
    if T.isSpace c then (if cur.isEmpty then splitAux r [] else cur :: splitAux r [])
    else splitAux r (cur ++ [c])

/-- `str.split()`: maximal runs of non-white-space characters. -/
def split (s : List Char) : List (List Char) := T.splitAux s []

/-- No `str.isspace` character. -/
def noSpace (s : List Char) : Bool := s.all fun c => !T.isSpace c

/-- What `int()` skips at both ends.  CPython (`_PyUnicode_TransformDecimalAndSpaceToASCII`) leaves an
all-ASCII string alone and otherwise keeps every character below 127 and turns the other `str.isspace`
characters into a blank; the ASCII parser then skips C `isspace` only: TAB LF VT FF CR SPACE — **not**
U+001C..U+001F, which `\s` admits. -/
def isIntSpace (c : Char) : Bool :=
  if c.toNat < 127 then AsciiStr.isIntSpace c else T.isSpace c

/-- One step of reading a decimal string left to right. -/
def intStep (acc : Option Nat) (c : Char) : Option Nat :=
  match acc, T.decimal c with
  | some a, some d => some (10 * a + d)
  | _, _ => none

/-- `int(s)` for a string made of `\d` and `\s` characters only (all that `RE_COLOR` lets through,
apart from the commas it is split at): strip, then a non-empty run of decimal digits no longer than
the interpreter's limit (`sys.get_int_max_str_digits()`, 4300 by default).  `none` = `ValueError`.
(Signs and underscores cannot occur: `RE_COLOR` does not let them through.) -/
def pyInt (s : List Char) : Option Nat :=
  let t := ((s.dropWhile T.isIntSpace).reverse.dropWhile T.isIntSpace).reverse
  if t.isEmpty then none
  else if T.maxDigits ≠ 0 ∧ T.maxDigits < t.length then none
  else t.foldl T.intStep (some 0)

/-- The ASCII rules: what the tables are for text below 128 (and the legacy model of C06 round 1). -/
def ascii : StrTables :=
  { isSpace := AsciiStr.isSpace
    decimal := fun c => if AsciiStr.isDigit c then some (c.toNat - 48) else none
    lowerChar := fun c => [AsciiStr.lowerChar c]
    maxDigits := 4300 }

/-- `(lo, hi, target)` runs: the image of `n` if it lies in a run. -/
def inRuns (rs : List (Nat × Nat × Nat)) (n : Nat) : Option Nat :=
  (rs.find? fun r => r.1 ≤ n && n ≤ r.2.1).map fun r => r.2.2 + (n - r.1)

/-- The tables of the running Python, as translated on this run. -/
def real : StrTables :=
  { isSpace := fun c => Gen.strWhitespace.contains c.toNat
    decimal := fun c => inRuns Gen.strDecimalRuns c.toNat
    lowerChar := fun c =>
      match Gen.strLowerSpecial.find? fun p => p.1 == c.toNat with
      | some p => p.2.map Char.ofNat
      | none =>
        match inRuns Gen.strLowerRuns c.toNat with
        | some t => [Char.ofNat t]
        | none => [c]
    maxDigits := Gen.strMaxDigits }

/-- Strings whose `lower()` is not character-wise (final-sigma rule): outside the model. -/
def lowerUnmodelled (s : List Char) : Bool := s.any fun c => Gen.strLowerContext.contains c.toNat

/-- What the theorems need of the tables. -/
class Lawful (T : StrTables) : Prop where
  space_ascii : ∀ c : Char, c.toNat < 128 → T.isSpace c = AsciiStr.isSpace c
  lower_ascii : ∀ c : Char, c.toNat < 128 → T.lowerChar c = [AsciiStr.lowerChar c]
  decimal_ascii : ∀ c : Char, c.toNat < 128 →
    T.decimal c = if AsciiStr.isDigit c then some (c.toNat - 48) else none
  /-- `s.lower().lower() == s.lower()` -/
  lower_idem : ∀ c : Char, (T.lowerChar c).flatMap T.lowerChar = T.lowerChar c
  /-- lower-casing does not create white space -/
  lower_noSpace : ∀ c : Char, T.isSpace c = false → ∀ d ∈ T.lowerChar c, T.isSpace d = false
  /-- CPython refuses a limit below 640 -/
  digits_floor : T.maxDigits = 0 ∨ 3 ≤ T.maxDigits

/-- Executable form of `Lawful` at one character (the driver evaluates it on every code point). -/
def lawfulAt (c : Char) : Bool :=
  (if c.toNat < 128 then
    T.isSpace c == AsciiStr.isSpace c && T.lowerChar c == [AsciiStr.lowerChar c] &&
    T.decimal c == (if AsciiStr.isDigit c then some (c.toNat - 48) else none) else true) &&
  (T.lowerChar c).flatMap T.lowerChar == T.lowerChar c &&
  (T.isSpace c || (T.lowerChar c).all fun d => !T.isSpace d)

end StrTables

open AsciiStr

/-! ### `RE_COLOR` -/

/-- `[0-9a-f]` -/
def isHexLower (c : Char) : Bool := isDigit c || (97 ≤ c.toNat && c.toNat ≤ 102)

/-- `int(x, 16)` of one lower-case hex digit. -/
def hexVal (c : Char) : Nat := if isDigit c then c.toNat - 48 else c.toNat - 87

/-- The three groups of `RE_COLOR.match(color).groups()` (exactly one is not `None`). -/
inductive ReColor where
  /-- `\#([0-9a-f]{6})$` -/
  | hex (six : List Char)
  /-- `color\(([0-9]{1,3})\)$` -/
  | color8 (digits : List Char)
  /-- `rgb\(([\d\s,]+)\)$` -/
  | rgb (body : List Char)
deriving Repr, BEq, DecidableEq

/-- `body` if `s == body + ")"`. -/
def dropCloseParen? (s : List Char) : Option (List Char) :=
  match s.reverse with
  | ')' :: r => some r.reverse
  | _ => none

/-- `RE_COLOR.match(s)`.  The three alternatives start with different characters, so their order
does not matter; `$` is end-of-string here because `s` has been stripped (no trailing newline).
`[0-9a-f]` and `[0-9]` are ASCII classes; `\d` and `\s` in the third are the interpreter's. -/
def matchRe (T : StrTables) (s : List Char) : Option ReColor :=
  match s with
  | '#' :: rest => if rest.length == 6 && rest.all isHexLower then some (.hex rest) else none
  | _ =>
    match dropPrefix? (cl! "color(") s with
    | some rest =>
      match dropCloseParen? rest with
      | some ds => if 1 ≤ ds.length && ds.length ≤ 3 && ds.all isDigit then some (.color8 ds) else none
      | none => none
    | none =>
      match dropPrefix? (cl! "rgb(") s with
      | some rest =>
        match dropCloseParen? rest with
        | some body =>
          if 1 ≤ body.length && body.all (fun c => (T.decimal c).isSome || T.isSpace c || c == ',')
          then some (.rgb body) else none
        | none => none
      | none => none

/-- `ANSI_COLOR_NAMES.get(color)` on the translated table. -/
def ansiColorNumber (name : List Char) : Option Nat :=
  (Gen.ansiColorNames.find? fun p => p.1 == name).map (·.2)

/-- `ColorType.STANDARD if number < 16 else ColorType.EIGHT_BIT` -/
def numberType (n : Nat) : ColorType := if n < 16 then .standard else .eightBit

/-- Body of `Color.parse` after `color = color.lower().strip()` (color.py:396-440). -/
def Color.parseNormT (T : StrTables) (v : StyleVariant) (color : List Char) : Except StyleErr Color :=
  if color == cl! "default" then .ok { name := color, type := .default }
  else match ansiColorNumber color with
  | some n => .ok { name := color, type := numberType n, number := some n }
  | none =>
    match matchRe T color with
    | none => .error .colorParse
    | some (.hex six) =>
      match six with
      | [a, b, c, d, e, f] =>
        .ok { name := color, type := .truecolor,
              triplet := some ⟨16 * hexVal a + hexVal b, 16 * hexVal c + hexVal d, 16 * hexVal e + hexVal f⟩ }
      | _ => .error .colorParse   -- unreachable: the scanner returns exactly six characters
    | some (.color8 ds) =>
      if decimalVal ds > 255 then .error .colorParse
      else .ok { name := color, type := numberType (decimalVal ds), number := some (decimalVal ds) }
    | some (.rgb body) =>
      match splitComma body with
      | [red, green, blue] =>
        match T.pyInt red, T.pyInt green, T.pyInt blue with
        | some r, some g, some b =>
          if r ≤ 255 && g ≤ 255 && b ≤ 255 then
            .ok { name := color, type := .truecolor, triplet := some ⟨r, g, b⟩ }
          else .error .colorParse
        | _, _, _ => .error (if v.rgbValueError then .valueError else .colorParse)
      | _ => .error .colorParse

/-- `Color.parse(color)` (color.py:389-440) over the tables `T`. -/
def Color.parseT (T : StrTables) (v : StyleVariant) (color : List Char) : Except StyleErr Color :=
  Color.parseNormT T v (T.strip (T.lower color))

/-- `Color.parse(color)` on ASCII text (the instance other models use). -/
abbrev Color.parse (v : StyleVariant) (color : List Char) : Except StyleErr Color :=
  Color.parseT StrTables.ascii v color

end RichModel
