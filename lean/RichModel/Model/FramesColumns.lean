import RichModel.Model.Frames
/-
Model of rich/columns.py `Columns.__rich_console__` (columns.py:62-171) up to the point where the
rows are handed to `Table.grid(...).add_row`: the column-count search, `iter_renderables`
(row-first / column-first order, blank padding of the last row) and the row slicing with
`right_to_left`.  The inner `Table` is NOT modelled (it is C07's subject): the result of the model is
the grid of item indices that is passed to `add_row`, `none` standing for a blank cell.

Inputs: the options, `Measurement.get(console, item, max_width).maximum` of every item (oracle), and
`options.max_width`.
-/
namespace RichModel.Frames
open RichModel

structure ColumnsOpts where
  padding : List Nat := [0, 1]
  width : Option Int := none
  equal : Bool := false
  columnFirst : Bool := false
  rightToLeft : Bool := false
deriving Repr

/-- The `for index in range(item_count)` loop that fills `cells` column by column (columns.py:99-107).
`k` = items still to place, `idx` = `index`.  (`cells[row][col] = index` cannot be out of range and
`column_lengths[col]` cannot be 0 on entry — shown in Lemmas/FramesColumns.) -/
def fillLoop : Nat → Nat → Nat → Nat → List Int → List (List (Option Nat)) → List (List (Option Nat))
  | 0, _, _, _, _, cells => cells
  | k+1, idx, row, col, lens, cells =>
    let cells := cells.set row ((cells.getD row []).set col (some idx))
    let lens := lens.set col (lens.getD col 0 - 1)
    if lens.getD col 0 != 0 then fillLoop k (idx+1) (row+1) col lens cells
    else fillLoop k (idx+1) 0 (col+1) lens cells

/-- `column_lengths` (columns.py:92-94). -/
def columnLengths (n c : Nat) : List Int :=
  (List.range c).map (fun j => ((n / c : Nat) : Int) + (if j < n % c then 1 else 0))

/-- The index order `iter_renderables(column_count)` yields before the blank padding. -/
def itemOrder (columnFirst : Bool) (n c : Nat) : List Nat :=
  if columnFirst then
    let rowCount := (n + c - 1) / c
    let cells := fillLoop n 0 0 0 (columnLengths n c) (List.replicate rowCount (List.replicate c none))
    -- `for index in chain.from_iterable(cells): if index == -1: break`
    (cells.flatten.takeWhile (·.isSome)).filterMap id
  else List.range n

/-- `iter_renderables(column_count)` as (width, item index or `none` = blank).  `column_count = 0`
raises `ZeroDivisionError` (`item_count // column_count` resp. `item_count % column_count`). -/
def iterRenderables (columnFirst : Bool) (widths : List Int) (c : Nat) : Except PyErr (List (Int × Option Nat)) :=
  if c == 0 then .error .zeroDivision
  else
    let n := widths.length
    let items := (itemOrder columnFirst n c).map (fun i => (widths.getD i 0, some i))
    let padN := if n % c != 0 then c - n % c else 0
    .ok (items ++ List.replicate padN (0, none))

/-- The inner `for renderable_width, _ in iter_renderables(column_count)` of the width search
(columns.py:128-141).  `ws` = the values of the `widths` defaultdict in key order (the keys touched so
far are always `0 .. ws.length-1`).  `some k` = `break` with `column_count = k`; `none` = the `else`. -/
def searchInner (widthPadding maxWidth : Int) (c : Nat) : List (Int × Option Nat) → List Int → Nat → Option Nat
  | [], _, _ => none
  | (rw, _) :: rest, ws, colNo =>
    let ws := if colNo < ws.length then ws.set colNo (max (ws.getD colNo 0) rw) else ws ++ [max 0 rw]
    let total := ws.sum + widthPadding * ((ws.length : Int) - 1)
    if total > maxWidth then some (ws.length - 1)
    else searchInner widthPadding maxWidth c rest ws ((colNo + 1) % c)

/-- `while column_count > 1:` (columns.py:126-142); the count strictly decreases on every `break`. -/
def searchLoop (columnFirst : Bool) (widths : List Int) (widthPadding maxWidth : Int) : Nat → Nat → Nat
  | 0, c => c
  | fuel+1, c =>
    if c > 1 then
      match iterRenderables columnFirst widths c with
      | .error _ => c
      | .ok items =>
        match searchInner widthPadding maxWidth c items [] 0 with
        | some c' => searchLoop columnFirst widths widthPadding maxWidth fuel c'
        | none => c
    else c

/-- `rows`: `_renderables[start : start + column_count]` for `start in range(0, len, column_count)`. -/
def chunk {α : Type} (c : Nat) : Nat → List α → List (List α)
  | 0, _ => []
  | fuel+1, l => if l.isEmpty || c == 0 then [] else l.take c :: chunk c fuel (l.drop c)

structure ColumnsLayout where
  columnCount : Nat
  rows : List (List (Option Nat))
deriving Repr, BEq, DecidableEq

/-- `Columns.__rich_console__` up to `add_row`.  `.ok none` = no renderables (nothing is yielded). -/
def columnsLayout (v : Variant) (o : ColumnsOpts) (measured : List Int) (maxWidth : Int) : Except PyErr (Option ColumnsLayout) :=
  if measured.isEmpty then .ok none
  else
    match unpackPad o.padding with
    | .error e => .error e
    | .ok p =>
      let widthPadding : Int := max p.left p.right
      let n := measured.length
      let widths := if o.equal then List.replicate n (listMax measured) else measured
      let count : Except PyErr Nat :=
        match o.width with
        | some cwid =>
          if v.columnsZeroCount then
            -- as found (before fix f7ecf83): `max_width // (width + padding)` — raises for a zero divisor, may be 0 columns
            if cwid + widthPadding == 0 then .error .zeroDivision
            else .ok (maxWidth / (cwid + widthPadding)).toNat
          else
            -- repaired (fix f7ecf83, what /repo contains now): `max(1, max_width // max(1, width + padding))`
            .ok (max 1 (maxWidth / (max 1 (cwid + widthPadding))).toNat)
        | none => .ok (searchLoop o.columnFirst widths widthPadding maxWidth (n + 1) n)
      match count with
      | .error e => .error e
      | .ok c =>
        match iterRenderables o.columnFirst widths c with
        | .error e => .error e
        | .ok items =>
          let cells := items.map (·.2)
          let rows := chunk c cells.length cells
          .ok (some ⟨c, if o.rightToLeft then rows.map List.reverse else rows⟩)

end RichModel.Frames
