import RichModel.Model.ColorParse
import RichModel.Model.Style
import RichModel.Model.Markup
import RichModel.Model.Theme
import RichModel.Gen.DefaultStyleNames
/-!
Model for property C14 — the *exception layer* of the public string entry points of rich:

* `Color.parse`        rich/color.py:389-440   → `UColor.parse`   = C06's `Color.parseT`
* `Style.parse`        rich/style.py:404-492   → `UStyle.parse`   = C06's `Style.parseT`
* `Style.normalize`    rich/style.py:318-333   → `UStyle.normalize` = C06's `Style.normalizeT`
* `markup.render`      rich/markup.py:91-160   → `renderE`        (C04's tokenizer / stack machine, with a
                                                  `normalize` that can raise)
* `Console.get_style`  rich/console.py:1001-1027 → `getStyle`     (C20's `Theme.getStyle` over `UStyle.parse`)
* `Console.print(str, markup=False)` → `printPlainE` in `Model/TotalityPrint.lean`

SINGLE SOURCE.  The parsers are C06's (`Model/ColorParse.lean`, `Model/Style.lean`), which since the deepening round are
parameterised by the running Python's character tables over ALL code points (`StrTables`: `str.isspace` / `\s`, `\d` with
the digit values of `int()`, `str.lower`, the `int()` digit limit — the design this file introduced as `PyStr` in round 1,
when C06's model covered ASCII only).  Nothing is modelled twice: this file only maps C06's error type to the exception
classes observed at the entry points (`Exc`) and selects the code variant by the one flag C14 owns (`vErr`: F9).
The theorems of C14 hold for **every** `StrTables` (no lawfulness assumption); the driver instantiates `StrTables.real`.

C04's markup model takes `Style.normalize` as a total function parameter; the real one can raise
(`[rgb(1,,2)]x` → `ValueError`, pre-finding F9).  `renderE` is C04's render loop with a `normalize`
that returns `Except`; `Lemmas/Totality.lean` proves it equal to C04's `render` whenever
`normalize` does not raise.

Import-free apart from `RichModel.Model.*` / `RichModel.Gen.*`.
-/
namespace RichModel
namespace Totality
open AsciiStr

/-! ## The exception classes observed at the public entry points -/

inductive Exc where
  /-- `rich.color.ColorParseError` (documented for `Color.parse`) -/
  | colorParseError
  /-- `rich.errors.StyleSyntaxError` (documented for `Style.parse`) -/
  | styleSyntaxError
  /-- `rich.errors.MarkupError` (documented for `markup.render`, `Console.print` with markup) -/
  | markupError
  /-- `rich.errors.MissingStyle` (documented for `Console.get_style`) -/
  | missingStyle
  /-- `ValueError` — undocumented everywhere in this file -/
  | valueError
  /-- `StopIteration` (C06's `Style.chain` on an empty iterable; not reachable from the parsers) -/
  | stopIteration
deriving Repr, BEq, DecidableEq, Inhabited

def Exc.name : Exc → String
  | .colorParseError => "ColorParseError"
  | .styleSyntaxError => "StyleSyntaxError"
  | .markupError => "MarkupError"
  | .missingStyle => "MissingStyle"
  | .valueError => "Other:ValueError"
  | .stopIteration => "Other:StopIteration"

/-- C06's error type as the exception classes -/
def ofStyleErr : StyleErr → Exc
  | .colorParse => .colorParseError
  | .styleSyntax => .styleSyntaxError
  | .valueError => .valueError
  | .stopIteration => .stopIteration

def liftS {α : Type} : Except StyleErr α → Except Exc α
  | .ok a => .ok a
  | .error e => .error (ofStyleErr e)

/-! ## The running Python's character tables -/

/-- The character tables of the interpreter: C06's `StrTables` (the name of round 1 is kept). -/
abbrev PyStr := StrTables

/-- The tables restricted to ASCII. -/
abbrev PyStr.ascii : PyStr := StrTables.ascii

namespace Py
/-- the tables of the running Python (driver instance) -/
abbrev real : PyStr := StrTables.real
/-- strings whose `lower()` the table cannot give (final-sigma rule) -/
abbrev lowerUnmodelled (s : List Char) : Bool := StrTables.lowerUnmodelled s
end Py

/-- the code variant: everything repaired (what /repo contains) except, when `vErr`, F9 -/
def variantOf (vErr : Bool) : StyleVariant := { StyleVariant.fixed with rgbValueError := vErr }

variable (P : PyStr)

/-- `str.strip()` -/
abbrev strip (s : List Char) : List Char := P.strip s
/-- `str.split()` -/
abbrev split (s : List Char) : List (List Char) := P.split s
/-- `int(s)` for a string of `\d` and `\s` characters; `none` = `ValueError` -/
abbrev pyInt (s : List Char) : Option Nat := P.pyInt s

/-! ## `Color.parse`, `Style.parse`, `Style.normalize`: C06's models at the observation point -/

namespace UColor
/-- `Color.parse(color)`; `vErr = true`: rich 9.10.0 as found, where the `ValueError` of `int()` escapes (F9). -/
def parse (vErr : Bool) (color : List Char) : Except Exc Color := liftS (Color.parseT P (variantOf vErr) color)
end UColor

namespace UStyle
/-- `Style.parse(style_definition)` -/
def parse (vErr : Bool) (styleDefinition : List Char) : Except Exc Style := liftS (Style.parseT P (variantOf vErr) styleDefinition)
/-- `Style.normalize(style)` -/
def normalize (vErr : Bool) (style : List Char) : Except Exc (List Char) := liftS (Style.normalizeT P (variantOf vErr) style)
end UStyle

/-! ## `markup.render` with a `normalize` that can raise -/

open Markup in
/-- one iteration of `for position, plain_text, tag in _parse(markup)` (markup.py:135-160);
`norm` is `Style.normalize`, `cfg.norm` is not consulted. -/
def stepE (cfg : Markup.Cfg) (norm : List Char → Except Exc (List Char)) (st : Markup.St) :
    Markup.PEv → Except Exc Markup.St
  | .text _ s => .ok { st with text := st.text ++ chunkText cfg s }
  | .tag _ t =>
    if t.name.head? = some '/' then
      let sn := pyStrip cfg.isSpace t.name.tail
      if sn ≠ [] then
        match norm sn with
        | .error e => .error e                             -- `normalize(style_name)` is outside the `try`
        | .ok n =>
          match popByName n st.stack with
          | some (e, stack') => .ok (st.close e stack')
          | none => .error .markupError                    -- KeyError → MarkupError
      else
        match st.stack with
        | e :: stack' => .ok (st.close e stack')
        | [] => .error .markupError                        -- IndexError → MarkupError
    else
      match norm t.name with
      | .error e => .error e
      | .ok n =>
        .ok { st with
          stack := { idx := st.slots.length, start := st.text.length,
                     tag := { name := n, params := t.params } } :: st.stack,
          slots := st.slots ++ [none] }

def runE (cfg : Markup.Cfg) (norm : List Char → Except Exc (List Char)) :
    Markup.St → List Markup.PEv → Except Exc Markup.St
  | st, [] => .ok st
  | st, e :: es =>
    match stepE cfg norm st e with
    | .ok st' => runE cfg norm st' es
    | .error err => .error err

/-- `markup.render(markup, emoji=…)` (markup.py:91-160). -/
def renderE (cfg : Markup.Cfg) (norm : List Char → Except Exc (List Char)) (markup : List Char) :
    Except Exc Markup.Rendered :=
  if !markup.contains '[' then .ok (Markup.chunkText cfg markup, [])
  else
    match runE cfg norm Markup.St.init (Markup.parse markup) with
    | .ok st => .ok (Markup.finish cfg st)
    | .error e => .error e

/-- the markup configuration of the running code: spans in opening order (the C04 repair is in),
white space of `P`; `cfg.norm` is a placeholder that `renderE` never calls. -/
def markupCfg (emoji : Option (List Char → Option (List Char))) : Markup.Cfg :=
  { norm := id, emoji := emoji, isSpace := P.isSpace, sortSpans := false }

/-- `markup.render` of rich: `normalize` is `Style.normalize`. -/
def markupRender (vErr : Bool) (emoji : Option (List Char → Option (List Char))) (markup : List Char) :
    Except Exc Markup.Rendered :=
  renderE (markupCfg P emoji) (UStyle.normalize P vErr) markup

/-! ## `Console.get_style` -/

/-- `Style.parse` as the parser parameter of C20's theme model: `StyleSyntaxError` is the one
exception `get_style` converts. -/
def themeParse (vErr : Bool) : Theme.Parse Style := fun n =>
  match UStyle.parse P vErr n with
  | .ok s => .ok s
  | .error .styleSyntaxError => .error .syntaxError
  | .error _ => .error .other

/-- `Console.get_style(name, default=default)` (console.py:1001-1027) on theme stack `st`. -/
def getStyle (vErr : Bool) (st : Theme.Stack Style) (name : Theme.NS Style) (default : Option (Theme.NS Style)) :
    Except Theme.GErr Style :=
  Theme.getStyle (themeParse P vErr) st name default

/-- a theme stack holding the default theme's *names* (the styles themselves are not observed) -/
def defaultStack : Theme.Stack Style :=
  Theme.Stack.init ⟨Gen.defaultStyleNames.map fun n => (n, Style.null)⟩

end Totality
end RichModel
