import RichModel.Model.ColorParse
import RichModel.Model.Style
import RichModel.Model.Markup
import RichModel.Model.Theme
import RichModel.Gen.PyLower
import RichModel.Gen.PyDigits
import RichModel.Gen.TextTables
import RichModel.Gen.DefaultStyleNames
/-!
Model for property C14 — the *exception layer* of the public string entry points of rich:

* `Color.parse`        rich/color.py:389-440   → `UColor.parse`
* `Style.parse`        rich/style.py:404-492   → `UStyle.parse`   (+ `Style.__init__`'s `_make_color`)
* `Style.normalize`    rich/style.py:318-333   → `UStyle.normalize`
* `markup.render`      rich/markup.py:91-160   → `renderE`        (C04's tokenizer / stack machine, with a
                                                  `normalize` that can raise)
* `Console.get_style`  rich/console.py:1001-1027 → `getStyle`     (C20's `Theme.getStyle` over `UStyle.parse`)
* `Console.render_str(markup=False)` + `Console.print(str, markup=False)` → `printPlain`

WHY THIS FILE EXISTS BESIDE `Model/ColorParse.lean` / `Model/Style.lean` (C06).  Those model Python's
`str.lower / strip / split`, `\d`, `\s` and `int()` **for ASCII text only** (the C06 driver answers
`unmodelled` for anything else).  The statement of C14 is over *all* strings, and the escapes it is
about live exactly in the gap between the Unicode-aware character classes (`\d` admits "٣", `\s`
admits U+001C..U+001F and U+3000, `str.lower()` maps the KELVIN SIGN to "k") and what `int()` accepts.
So the parsers are modelled again here over arbitrary code points, parameterised by the runtime's
character tables (`PyStr`); the theorems hold **for every** such table, the driver instantiates the
tables generated from the running Python (`Gen.PyLower`, `Gen.PyDigits`, `Gen.TextTables`).
C06's data types (`Color`, `Style`, `StyleErr`), its `RE_COLOR` helpers and `Style.str` are reused as
they are; `Lemmas/Totality.lean` proves that with the ASCII tables the parsers here *are* C06's.

C04's markup model takes `Style.normalize` as a total function parameter; the real one can raise
(`[rgb(1,,2)]x` → `ValueError`, pre-finding F9).  `renderE` is C04's render loop with a `normalize`
that returns `Except`; `Lemmas/Totality.lean` proves it equal to C04's `render` whenever
`normalize` does not raise.

Import-free apart from `RichModel.Model.*` / `RichModel.Gen.*`.
-/
namespace RichModel
namespace Totality
open AsciiStr

/-! ## The exception classes observed at the public entry points -/

inductive Exc where
  /-- `rich.color.ColorParseError` (documented for `Color.parse`) -/
  | colorParseError
  /-- `rich.errors.StyleSyntaxError` (documented for `Style.parse`) -/
  | styleSyntaxError
  /-- `rich.errors.MarkupError` (documented for `markup.render`, `Console.print` with markup) -/
  | markupError
  /-- `rich.errors.MissingStyle` (documented for `Console.get_style`) -/
  | missingStyle
  /-- `ValueError` — undocumented everywhere in this file -/
  | valueError
deriving Repr, BEq, DecidableEq, Inhabited

def Exc.name : Exc → String
  | .colorParseError => "ColorParseError"
  | .styleSyntaxError => "StyleSyntaxError"
  | .markupError => "MarkupError"
  | .missingStyle => "MissingStyle"
  | .valueError => "Other:ValueError"

/-! ## The running Python's character tables -/

/-- Facts about `str` of the running interpreter.  Every theorem of C14 holds for all values. -/
structure PyStr where
  /-- `str.isspace` = regex `\s` = what `str.strip()` / `str.split()` remove -/
  isSpace : Char → Bool
  /-- regex `\d` = `str.isdecimal`: the digit value `int()` gives the character -/
  decimal : Char → Option Nat
  /-- `str.lower()` -/
  lower : List Char → List Char
  /-- `sys.get_int_max_str_digits()` (0 = no limit) -/
  maxDigits : Nat

/-- The tables restricted to ASCII: C06's modelled domain. -/
def PyStr.ascii : PyStr :=
  { isSpace := AsciiStr.isSpace
    decimal := fun c => if AsciiStr.isDigit c then some (c.toNat - 48) else none
    lower := AsciiStr.lower
    maxDigits := 4300 }

namespace Py

def inRuns (rs : List (Nat × Nat × Nat)) (n : Nat) : Option Nat :=
  (rs.find? fun r => r.1 ≤ n && n ≤ r.2.1).map fun r => r.2.2 + (n - r.1)

/-- `chr(cp).lower()` from the generated table (context-free part). -/
def lowerChar (c : Char) : List Char :=
  match Gen.pyLowerSpecial.find? fun p => p.1 == c.toNat with
  | some p => p.2.map Char.ofNat
  | none =>
    match inRuns Gen.pyLowerRuns c.toNat with
    | some t => [Char.ofNat t]
    | none => [c]

/-- the tables of the running Python (driver instance) -/
def real : PyStr :=
  { isSpace := fun c => Gen.pyWhitespace.contains c.toNat
    decimal := fun c => inRuns Gen.pyDecimalRuns c.toNat
    lower := fun s => s.flatMap lowerChar
    maxDigits := Gen.pyMaxStrDigits }

/-- strings whose `lower()` the table cannot give (final-sigma rule) -/
def lowerUnmodelled (s : List Char) : Bool := s.any fun c => Gen.pyLowerContext.contains c.toNat

end Py

variable (P : PyStr)

/-! ## `str.strip`, `str.split`, `int` over all code points -/

/-- `str.strip()` -/
def strip (s : List Char) : List Char := Markup.pyStrip P.isSpace s

/-- loop of `str.split()` (no argument) -/
def splitAux : List Char → List Char → List (List Char)
  | [], cur => if cur.isEmpty then [] else [cur]
  | c :: r, cur =>
    if P.isSpace c then (if cur.isEmpty then splitAux r [] else cur :: splitAux r [])
    else splitAux r (cur ++ [c])

/-- `str.split()`: maximal runs of non-white-space characters -/
def split (s : List Char) : List (List Char) := splitAux P s []

/-- What `int()` strips at both ends.  CPython (`_PyUnicode_TransformDecimalAndSpaceToASCII`) keeps
every character below 127 as it is and turns the other `str.isspace` characters into a blank; the
ASCII parser then skips C `isspace` only: TAB LF VT FF CR SPACE — **not** U+001C..U+001F, which
`\s` admits. -/
def isIntSpace (c : Char) : Bool :=
  if c.toNat < 127 then AsciiStr.isIntSpace c else P.isSpace c

/-- one step of reading a decimal string left to right -/
def intStep (acc : Option Nat) (c : Char) : Option Nat :=
  match acc, P.decimal c with
  | some a, some d => some (10 * a + d)
  | _, _ => none

/-- `int(s)` for a string made of `\d`, `\s` and nothing else (all `RE_COLOR` lets through apart from
the commas it is split at): strip, then a non-empty run of decimal digits no longer than the
interpreter's limit.  `none` = `ValueError`. -/
def pyInt (s : List Char) : Option Nat :=
  let t := Markup.pyStrip (isIntSpace P) s
  if t.isEmpty then none
  else if P.maxDigits ≠ 0 ∧ P.maxDigits < t.length then none
  else t.foldl (intStep P) (some 0)

/-! ## `Color.parse` -/

namespace UColor

/-- `RE_COLOR.match(s)` over all code points: `[0-9a-f]` and `[0-9]` are ASCII classes, `[\d\s,]` is not. -/
def matchRe (s : List Char) : Option ReColor :=
  match s with
  | '#' :: rest => if rest.length == 6 && rest.all isHexLower then some (.hex rest) else none
  | _ =>
    match dropPrefix? (cl! "color(") s with
    | some rest =>
      match dropCloseParen? rest with
      | some ds => if 1 ≤ ds.length && ds.length ≤ 3 && ds.all AsciiStr.isDigit then some (.color8 ds) else none
      | none => none
    | none =>
      match dropPrefix? (cl! "rgb(") s with
      | some rest =>
        match dropCloseParen? rest with
        | some body =>
          if 1 ≤ body.length && body.all (fun c => (P.decimal c).isSome || P.isSpace c || c == ',')
          then some (.rgb body) else none
        | none => none
      | none => none

/-- Body of `Color.parse` after `color = color.lower().strip()`.  `vErr = true`: rich 9.10.0 as found, where
the `ValueError` of `int()` escapes (F9); `false`: the repaired code (fix c34676b, what /repo contains now) raises `ColorParseError`. -/
def parseNorm (vErr : Bool) (color : List Char) : Except Exc Color :=
  if color == cl! "default" then .ok { name := color, type := .default }
  else match ansiColorNumber color with
  | some n => .ok { name := color, type := numberType n, number := some n }
  | none =>
    match matchRe P color with
    | none => .error .colorParseError
    | some (.hex six) =>
      match six with
      | [a, b, c, d, e, f] =>
        .ok { name := color, type := .truecolor,
              triplet := some ⟨16 * hexVal a + hexVal b, 16 * hexVal c + hexVal d, 16 * hexVal e + hexVal f⟩ }
      | _ => .error .colorParseError   -- unreachable: the scanner returns exactly six characters
    | some (.color8 ds) =>
      if decimalVal ds > 255 then .error .colorParseError
      else .ok { name := color, type := numberType (decimalVal ds), number := some (decimalVal ds) }
    | some (.rgb body) =>
      match splitComma body with
      | [red, green, blue] =>
        match pyInt P red, pyInt P green, pyInt P blue with
        | some r, some g, some b =>
          if r ≤ 255 && g ≤ 255 && b ≤ 255 then
            .ok { name := color, type := .truecolor, triplet := some ⟨r, g, b⟩ }
          else .error .colorParseError
        | _, _, _ => .error (if vErr then .valueError else .colorParseError)
      | _ => .error .colorParseError

/-- `Color.parse(color)` (color.py:389-440), `lru_cache` assumed transparent. -/
def parse (vErr : Bool) (color : List Char) : Except Exc Color :=
  parseNorm P vErr (strip P (P.lower color))

end UColor

/-! ## `Style.parse`, `Style.normalize` -/

namespace UStyle
open Style (ParseState attrIndex kwSet kwVal)

/-- The loop of `Style.parse` (style.py:450-490) over all code points. -/
def parseLoop (vErr : Bool) : List (List Char) → ParseState → Except Exc ParseState
  | [], st => .ok st
  | originalWord :: rest, st =>
    let word := P.lower originalWord
    if word == cl! "on" then
      match rest with
      | [] => .error .styleSyntaxError                  -- `next(words, "")` is "": "color expected after 'on'"
      | w :: rest' =>
        match UColor.parse P vErr w with
        | .error .colorParseError => .error .styleSyntaxError
        | .error e => .error e                           -- anything else is not caught
        | .ok _ => parseLoop vErr rest' { st with bgcolor := some w }
    else if word == cl! "not" then
      match rest with
      | [] => .error .styleSyntaxError                  -- `style_attributes.get("")` is None
      | w :: rest' =>
        match attrIndex w with                           -- NB: `w` is not lower-cased
        | none => .error .styleSyntaxError
        | some i => parseLoop vErr rest' { st with attributes := st.attributes.set i (some false) }
    else if word == cl! "link" then
      match rest with
      | [] => .error .styleSyntaxError
      | w :: rest' => parseLoop vErr rest' { st with link := some w }
    else
      match attrIndex word with
      | some i => parseLoop vErr rest { st with attributes := st.attributes.set i (some true) }
      | none =>
        match UColor.parse P vErr word with
        | .error .colorParseError => .error .styleSyntaxError
        | .error e => .error e
        | .ok _ => parseLoop vErr rest { st with color := some word }

/-- `_make_color` on an optional colour word (style.py:116). -/
def makeColor (vErr : Bool) : Option (List Char) → Except Exc (Option Color)
  | none => .ok none
  | some w => (UColor.parse P vErr w).map some

/-- `Style(color=color, bgcolor=bgcolor, link=link, **attributes)` (style.py:93-171): the colour
words are parsed again, `color` before `bgcolor`. -/
def init (vErr : Bool) (st : ParseState) : Except Exc Style :=
  match makeColor P vErr st.color with
  | .error e => .error e
  | .ok c =>
    match makeColor P vErr st.bgcolor with
    | .error e => .error e
    | .ok b =>
      let setA := kwSet st.attributes
      let attrs := if setA ≠ 0 then kwVal st.attributes else 0
      .ok { color := c, bgcolor := b, attributes := attrs, setAttributes := setA, link := st.link,
            hash := ⟨c, b, some attrs, some setA, st.link⟩,
            isNull := !(setA ≠ 0 || st.color.isSome || st.bgcolor.isSome || strTruthy st.link),
            styleDef := none }

/-- `Style.parse(style_definition)` (style.py:404-492), `lru_cache` assumed transparent. -/
def parse (vErr : Bool) (styleDefinition : List Char) : Except Exc Style :=
  if strip P styleDefinition == cl! "none" || styleDefinition.isEmpty then .ok Style.null
  else
    match parseLoop P vErr (split P styleDefinition) {} with
    | .error e => .error e
    | .ok st => init P vErr st

/-- `Style.normalize(style)` (style.py:318-333): only `StyleSyntaxError` is caught;
the fallback is `style.strip().lower()`. -/
def normalize (vErr : Bool) (style : List Char) : Except Exc (List Char) :=
  match parse P vErr style with
  | .ok s => .ok (Style.str s)
  | .error .styleSyntaxError => .ok (P.lower (strip P style))
  | .error e => .error e

end UStyle

/-! ## `markup.render` with a `normalize` that can raise -/

open Markup in
/-- one iteration of `for position, plain_text, tag in _parse(markup)` (markup.py:135-160);
`norm` is `Style.normalize`, `cfg.norm` is not consulted. -/
def stepE (cfg : Markup.Cfg) (norm : List Char → Except Exc (List Char)) (st : Markup.St) :
    Markup.PEv → Except Exc Markup.St
  | .text _ s => .ok { st with text := st.text ++ chunkText cfg s }
  | .tag _ t =>
    if t.name.head? = some '/' then
      let sn := pyStrip cfg.isSpace t.name.tail
      if sn ≠ [] then
        match norm sn with
        | .error e => .error e                             -- `normalize(style_name)` is outside the `try`
        | .ok n =>
          match popByName n st.stack with
          | some (e, stack') => .ok (st.close e stack')
          | none => .error .markupError                    -- KeyError → MarkupError
      else
        match st.stack with
        | e :: stack' => .ok (st.close e stack')
        | [] => .error .markupError                        -- IndexError → MarkupError
    else
      match norm t.name with
      | .error e => .error e
      | .ok n =>
        .ok { st with
          stack := { idx := st.slots.length, start := st.text.length,
                     tag := { name := n, params := t.params } } :: st.stack,
          slots := st.slots ++ [none] }

def runE (cfg : Markup.Cfg) (norm : List Char → Except Exc (List Char)) :
    Markup.St → List Markup.PEv → Except Exc Markup.St
  | st, [] => .ok st
  | st, e :: es =>
    match stepE cfg norm st e with
    | .ok st' => runE cfg norm st' es
    | .error err => .error err

/-- `markup.render(markup, emoji=…)` (markup.py:91-160). -/
def renderE (cfg : Markup.Cfg) (norm : List Char → Except Exc (List Char)) (markup : List Char) :
    Except Exc Markup.Rendered :=
  if !markup.contains '[' then .ok (Markup.chunkText cfg markup, [])
  else
    match runE cfg norm Markup.St.init (Markup.parse markup) with
    | .ok st => .ok (Markup.finish cfg st)
    | .error e => .error e

/-- the markup configuration of the running code: spans in opening order (the C04 repair is in),
white space of `P`; `cfg.norm` is a placeholder that `renderE` never calls. -/
def markupCfg (emoji : Option (List Char → Option (List Char))) : Markup.Cfg :=
  { norm := id, emoji := emoji, isSpace := P.isSpace, sortSpans := false }

/-- `markup.render` of rich: `normalize` is `Style.normalize`. -/
def markupRender (vErr : Bool) (emoji : Option (List Char → Option (List Char))) (markup : List Char) :
    Except Exc Markup.Rendered :=
  renderE (markupCfg P emoji) (UStyle.normalize P vErr) markup

/-! ## `Console.get_style` -/

/-- `Style.parse` as the parser parameter of C20's theme model: `StyleSyntaxError` is the one
exception `get_style` converts. -/
def themeParse (vErr : Bool) : Theme.Parse Style := fun n =>
  match UStyle.parse P vErr n with
  | .ok s => .ok s
  | .error .styleSyntaxError => .error .syntaxError
  | .error _ => .error .other

/-- `Console.get_style(name, default=default)` (console.py:1001-1027) on theme stack `st`. -/
def getStyle (vErr : Bool) (st : Theme.Stack Style) (name : Theme.NS Style) (default : Option (Theme.NS Style)) :
    Except Theme.GErr Style :=
  Theme.getStyle (themeParse P vErr) st name default

/-- a theme stack holding the default theme's *names* (the styles themselves are not observed) -/
def defaultStack : Theme.Stack Style :=
  Theme.Stack.init ⟨Gen.defaultStyleNames.map fun n => (n, Style.null)⟩

end Totality
end RichModel
