import RichModel.Model.Style
import RichModel.Model.Color
import RichModel.Model.Segment
import RichModel.Model.AnsiTerm
/-
Model of the encoder side of property C03, statement by statement, quirks included:

* `Style._make_ansi_codes(color_system)`   rich/style.py:276-316   → `attrCodes`, `computeCodes`, `makeAnsiCodes`
  including the per-object `_ansi` cache (`StyleObj.ansi`) — the cache is *state*;
* `Style.render(text, color_system, legacy_windows)`  style.py:609-633 → `styleRender`
* `Style.copy` / `Style.update_link` carry `_ansi` over (style.py:567, 589)       → `Op.copy`, `Op.updateLink`
* `Segment.remove_color`                    rich/segment.py:365-385 → `removeColor` (the local dict `cache`)
* `Console._render_buffer`                  rich/console.py:1402-1424 → `renderLoop`, `renderBuffer`
* histories of such calls on shared `Style` objects                         → `Op`, `runOps`

Output is a list of `AnsiTerm.Tok`; `AnsiTerm.serialise` gives the characters.  The random
`_link_id` is masked: every OSC 8 opener carries the parameter `id=*`.

Code-variant flags (`RVariant`)
* `ansiCacheUnkeyed = true`  : rich 9.10.0 as found — `_make_ansi_codes` returns `self._ansi` whenever it is not
  `None`, whatever colour system it was computed for (pre-finding F7).  `false`: the repaired code that /repo contains now
  (fix c9ec5a8, the former pending_fixes/C03-ansi-cache-per-colour-system.diff), which remembers the colour system with the codes.
* `styledControlKept = true` : rich 9.10.0 as found — `_render_buffer` tests `if style:` first, so a *control*
  segment that carries a style is written to a non-terminal (F27).  `false`: the repaired code that /repo contains now
  (fix 23674a1, the former pending_fixes/C03-control-segments-not-terminal.diff) skips every control segment on a non-terminal.

Colour conversion is C18's model (`downgrade`, `getAnsiCodes`), parametrised by `Cfg` / `Palettes`.
Python errors (`AssertionError` from an ill-formed `Color`, …) are `Except` branches.
-/
namespace RichModel.AnsiRender
open RichModel RichModel.AnsiTerm

structure RVariant where
  ansiCacheUnkeyed : Bool
  styledControlKept : Bool
deriving Repr, DecidableEq

/-- rich 9.10.0 as found, before fixes c9ec5a8 and 23674a1 (the name `today` dates from then). -/
def RVariant.today : RVariant := ⟨true, true⟩
/-- both repairs applied: what /repo contains now. -/
def RVariant.repaired : RVariant := ⟨false, false⟩

/-- A `Style` object: the fields of C06's model plus the `_ansi` slot.  The cache remembers the
colour system it was computed for; the as-found code never looks at it (ghost state when
`ansiCacheUnkeyed`), the repaired code compares it. -/
structure StyleObj where
  style : Style
  ansi : Option (ColorSystem × List Nat) := none
deriving Repr, DecidableEq

/-- The heap of `Style` objects alive in a history; segments refer to them by index. -/
abbrev Heap := List StyleObj

inductive RenderErr where
  /-- a Python exception out of the colour code -/
  | py (e : ColorErr)
  /-- a segment or operation names an object that does not exist (outside the modelled domain) -/
  | badRef
deriving Repr, DecidableEq

def liftPy {α : Type} : Except ColorErr α → Except RenderErr α
  | .ok a => .ok a
  | .error e => .error (.py e)

/-! ## `_make_ansi_codes` -/

/-- `Style._style_map`: bit number ↦ SGR parameter. -/
def styleMap : List Nat := [1, 2, 3, 4, 5, 6, 7, 8, 9, 21, 51, 52, 53]

/-- `for bit in range(lo, hi): if attributes & (1 << bit): append(_style_map[bit])` -/
def bitLoop (attributes : Nat) (lo n : Nat) : List Nat :=
  (List.range' lo n).filterMap fun bit =>
    if attributes &&& (1 <<< bit) ≠ 0 then styleMap[bit]? else none

/-- The attribute part of `_make_ansi_codes` (style.py:289-306), with its group guards. -/
def attrCodes (attributes : Nat) : List Nat :=
  if attributes ≠ 0 then
    (if attributes &&& 1 ≠ 0 then [1] else []) ++
    (if attributes &&& 2 ≠ 0 then [2] else []) ++
    (if attributes &&& 4 ≠ 0 then [3] else []) ++
    (if attributes &&& 8 ≠ 0 then [4] else []) ++
    (if attributes &&& 0b0000111110000 ≠ 0 then bitLoop attributes 4 5 else []) ++
    (if attributes &&& 0b1111000000000 ≠ 0 then bitLoop attributes 9 4 else [])
  else []

/-- `color.downgrade(color_system).get_ansi_codes(foreground)` for an optional colour. -/
def colorCodes (cc : Cfg) (P : Palettes) (c : Option Color) (cs : ColorSystem) (fg : Bool) :
    Except ColorErr (List Nat) :=
  match c with
  | none => .ok []
  | some c => do
    let d ← downgrade cc P c cs
    getAnsiCodes d fg

/-- The body of `_make_ansi_codes` when the cache is empty: the list `sgr`. -/
def computeCodes (cc : Cfg) (P : Palettes) (s : Style) (cs : ColorSystem) : Except ColorErr (List Nat) := do
  let attrs := attrCodes (s.attributes &&& s.setAttributes)
  let fg ← colorCodes cc P s.color cs true
  let bg ← colorCodes cc P s.bgcolor cs false
  .ok (attrs ++ fg ++ bg)

/-- What `if self._ansi is None` sees. -/
def cacheLookup (v : RVariant) (o : StyleObj) (cs : ColorSystem) : Option (List Nat) :=
  match o.ansi with
  | none => none
  | some (cs', codes) => if v.ansiCacheUnkeyed || cs' == cs then some codes else none

/-- `Style._make_ansi_codes(color_system)`: the codes and the object afterwards.  An exception leaves
`_ansi` untouched. -/
def makeAnsiCodes (v : RVariant) (cc : Cfg) (P : Palettes) (o : StyleObj) (cs : ColorSystem) :
    Except ColorErr (List Nat × StyleObj) :=
  match cacheLookup v o cs with
  | some codes => .ok (codes, o)
  | none => do
    let codes ← computeCodes cc P o.style cs
    .ok (codes, { o with ansi := some (cs, codes) })

/-! ## `Style.render` -/

/-- The masked `id=` parameter of an OSC 8 opener. -/
def linkIdMask : List Char := ['i', 'd', '=', '*']

/-- `Style.render(text, color_system=…, legacy_windows=…)` (style.py:609-633). -/
def styleRender (v : RVariant) (cc : Cfg) (P : Palettes) (o : StyleObj) (text : List Char)
    (cs : Option ColorSystem) (legacyWindows : Bool) : Except ColorErr (List Tok × StyleObj) :=
  match cs with
  | none => .ok ([.text text], o)                       -- `color_system is None: return text`
  | some cs =>
    if text.isEmpty then .ok ([.text text], o)          -- `not text: return text`
    else do
      let (attrs, o') ← makeAnsiCodes v cc P o cs
      let rendered : List Tok :=
        if attrs.isEmpty then [.text text] else [.sgr attrs, .text text, .sgr [0]]
      let rendered :=
        if strTruthy o.style.link && !legacyWindows then
          [.osc8 linkIdMask (o.style.link.getD [])] ++ rendered ++ [.osc8 [] []]
        else rendered
      .ok (rendered, o')

/-! ## `Console._render_buffer` -/

/-- The console attributes `_render_buffer` reads. -/
structure Config where
  /-- `self._color_system` -/
  colorSystem : Option ColorSystem
  /-- `self.no_color` -/
  noColor : Bool
  /-- `self.is_terminal` -/
  isTerminal : Bool
  /-- `self.legacy_windows` -/
  legacyWindows : Bool
deriving Repr, DecidableEq

abbrev Seg := Segment Nat

/-- `Segment.remove_color` (segment.py:365-385) over the objects of `heap`: the segments now refer to
the objects of a fresh heap `tmp` holding `style.without_color` once per distinct (by `==`; the dict
is keyed by `Style`, whose `__hash__` agrees with `__eq__`) truthy style; `keys[k]` is the style
`tmp[k]` was made from. -/
def removeColorLoop (heap : Heap) :
    List Seg → (keys : List Style) → (tmp : Heap) → Except RenderErr (List Seg × Heap)
  | [], _, tmp => .ok ([], tmp)
  | seg :: rest, keys, tmp =>
    match seg.style with
    | none => do
      let (segs', tmp') ← removeColorLoop heap rest keys tmp
      .ok ({ seg with style := none } :: segs', tmp')
    | some i =>
      match heap[i]? with
      | none => .error .badRef
      | some o =>
        if o.style.toBool then
          match keys.findIdx? (fun k => Style.eq k o.style) with
          | some k => do
            let (segs', tmp') ← removeColorLoop heap rest keys tmp
            .ok ({ seg with style := some k } :: segs', tmp')
          | none => do
            let fresh : StyleObj := { style := Style.withoutColor StyleVariant.fixed o.style, ansi := none }
            let (segs', tmp') ← removeColorLoop heap rest (keys ++ [o.style]) (tmp ++ [fresh])
            .ok ({ seg with style := some keys.length } :: segs', tmp')
        else do
          let (segs', tmp') ← removeColorLoop heap rest keys tmp
          .ok ({ seg with style := none } :: segs', tmp')

/-- The `for text, style, is_control in buffer` loop of `_render_buffer` (console.py:1411-1421). -/
def renderLoop (v : RVariant) (cc : Cfg) (P : Palettes) (cfg : Config) :
    Heap → List Seg → Except RenderErr (List Tok × Heap)
  | heap, [] => .ok ([], heap)
  | heap, seg :: rest =>
    let notTerminal := !cfg.isTerminal
    let plain : List Tok := if notTerminal && seg.control then [] else [.text seg.text]
    -- repaired variant: `if not_terminal and is_control: continue` comes first
    if !v.styledControlKept && notTerminal && seg.control then renderLoop v cc P cfg heap rest
    else
      match seg.style with
      | none => do
        let (toks, heap') ← renderLoop v cc P cfg heap rest
        .ok (plain ++ toks, heap')
      | some i =>
        match heap[i]? with
        | none => .error .badRef
        | some o =>
          if o.style.toBool then do                   -- `if style:`
            let (toks, o') ← liftPy (styleRender v cc P o seg.text cfg.colorSystem cfg.legacyWindows)
            let (toks', heap') ← renderLoop v cc P cfg (heap.set i o') rest
            .ok (toks ++ toks', heap')
          else do                                     -- `elif not (not_terminal and is_control):`
            let (toks, heap') ← renderLoop v cc P cfg heap rest
            .ok (plain ++ toks, heap')

/-- `Console._render_buffer(buffer)`: the output and the heap afterwards. -/
def renderBuffer (v : RVariant) (cc : Cfg) (P : Palettes) (cfg : Config) (heap : Heap) (buffer : List Seg) :
    Except RenderErr (List Tok × Heap) :=
  if cfg.noColor && cfg.colorSystem.isSome then do    -- `if self.no_color and color_system:`
    let (segs', tmp) ← removeColorLoop heap buffer [] []
    let (toks, _) ← renderLoop v cc P cfg tmp segs'   -- the colourless objects die with the call
    .ok (toks, heap)
  else renderLoop v cc P cfg heap buffer

/-- The *string* `Console._render_buffer(buffer)` returns: the characters of the tokens. -/
def renderBufferChars (v : RVariant) (cc : Cfg) (P : Palettes) (cfg : Config) (heap : Heap) (buffer : List Seg) :
    Except RenderErr (List Char × Heap) :=
  match renderBuffer v cc P cfg heap buffer with
  | .ok (toks, heap') => .ok (serialise toks, heap')
  | .error e => .error e

/-! ## histories -/

/-- One step of a history over shared `Style` objects. -/
inductive Op where
  /-- a `Style` built by a constructor that starts with an empty cache (`Style(…)`, `parse`,
  `from_color`, `+`, `without_color`, …); it gets the next index -/
  | newStyle (s : Style)
  /-- `heap[i].copy()`: `_ansi` is copied (style.py:567) -/
  | copy (i : Nat)
  /-- `heap[i].update_link(link)`: `_ansi` is copied (style.py:589) -/
  | updateLink (i : Nat) (link : Option (List Char))
  /-- `console._render_buffer(segs)` on a console with these attributes -/
  | render (cfg : Config) (segs : List Seg)
  /-- `heap[i].render(text, color_system=cs, legacy_windows=lw)` called directly -/
  | styleRender (i : Nat) (text : List Char) (cs : Option ColorSystem) (lw : Bool)
deriving Repr, DecidableEq

/-- One step: the heap afterwards and what the call wrote (`none` for a step that writes nothing). -/
def stepOp (v : RVariant) (cc : Cfg) (P : Palettes) (heap : Heap) : Op → Except RenderErr (Heap × Option (List Tok))
  | .newStyle s => .ok (heap ++ [{ style := s, ansi := none }], none)
  | .copy i =>
    match heap[i]? with
    | none => .error .badRef
    | some o =>
      -- a null style returns the shared `NULL_STYLE`, whose codes are empty for every colour system
      .ok (heap ++ [{ style := Style.copy o.style, ansi := if o.style.isNull then none else o.ansi }], none)
  | .updateLink i link =>
    match heap[i]? with
    | none => .error .badRef
    | some o => .ok (heap ++ [{ style := Style.updateLink StyleVariant.fixed o.style link, ansi := o.ansi }], none)
  | .render cfg segs => do
    let (toks, heap') ← renderBuffer v cc P cfg heap segs
    .ok (heap', some toks)
  | .styleRender i text cs lw =>
    match heap[i]? with
    | none => .error .badRef
    | some o => do
      let (toks, o') ← liftPy (styleRender v cc P o text cs lw)
      .ok (heap.set i o', some toks)

/-- A history: what every writing step wrote, in order; the first exception ends it. -/
def runOps (v : RVariant) (cc : Cfg) (P : Palettes) : Heap → List Op → List (Except RenderErr (List Tok))
  | _, [] => []
  | heap, op :: rest =>
    match stepOp v cc P heap op with
    | .error e => [.error e]
    | .ok (heap', none) => runOps v cc P heap' rest
    | .ok (heap', some toks) => .ok toks :: runOps v cc P heap' rest

/-- The characters every writing step of a history wrote. -/
def runOpsChars (v : RVariant) (cc : Cfg) (P : Palettes) (heap : Heap) (ops : List Op) : List (Except RenderErr (List Char)) :=
  (runOps v cc P heap ops).map fun r =>
    match r with
    | .ok toks => .ok (serialise toks)
    | .error e => .error e

/-! ## the specification side: what the terminal must show

`expected` says how a character printed with a style must appear: which of the 13 aspects are on
(exactly those set *and* true), the colours after the documented down-conversion, the hyperlink. -/

/-- The terminal colour a (converted) `Color` stands for. -/
def termColorOf (c : Color) : TermColor :=
  match c.type with
  | .default => .default
  | .standard | .windows | .eightBit => .indexed (c.number.getD 0)
  | .truecolor =>
    match c.triplet with
    | some t => .rgb t.red t.green t.blue
    | none => .default

/-- The colour a terminal must show for an optional style colour on a console with colour system `cs`. -/
def expectedColor (cc : Cfg) (P : Palettes) (c : Option Color) (cs : ColorSystem) : TermColor :=
  match c with
  | none => .default
  | some c =>
    match downgrade cc P c cs with
    | .ok d => termColorOf d
    | .error _ => .default

/-- Rendition from an attribute mask: bit `i` = aspect `i` is on. -/
def rendOfMask (a : Nat) (fg bg : TermColor) : Rendition :=
  { bold := a.testBit 0, dim := a.testBit 1, italic := a.testBit 2, underline := a.testBit 3,
    blink := a.testBit 4, blink2 := a.testBit 5, reverse := a.testBit 6, conceal := a.testBit 7,
    strike := a.testBit 8, underline2 := a.testBit 9, frame := a.testBit 10, encircle := a.testBit 11,
    overline := a.testBit 12, fg := fg, bg := bg }

/-- How a character printed with style `s` on a console `cfg` must appear. -/
def expected (cc : Cfg) (P : Palettes) (cfg : Config) (s : Option Style) : Rendition × Option (List Char) :=
  match cfg.colorSystem, s with
  | none, _ => ({}, none)
  | _, none => ({}, none)
  | some cs, some s =>
    (rendOfMask (s.attributes &&& s.setAttributes)
      (if cfg.noColor then .default else expectedColor cc P s.color cs)
      (if cfg.noColor then .default else expectedColor cc P s.bgcolor cs),
     if strTruthy s.link && !cfg.legacyWindows then s.link else none)

/-- The style a segment is printed with (`none`: no style object, or a dangling reference). -/
def segStyle (heap : Heap) (seg : Seg) : Option Style :=
  match seg.style with
  | none => none
  | some i => (heap[i]?).map (·.style)

/-- Is the segment written at all?  Control segments are for terminals only. -/
def segVisible (cfg : Config) (seg : Seg) : Bool := cfg.isTerminal || !seg.control

/-- The cells a terminal must show after `_render_buffer(segs)`. -/
def expectedCells (cc : Cfg) (P : Palettes) (cfg : Config) (heap : Heap) (segs : List Seg) : List Cell :=
  (segs.filter (segVisible cfg)).flatMap fun seg =>
    let e := expected cc P cfg (segStyle heap seg)
    seg.text.map fun c => ⟨c, e.1, e.2⟩

end RichModel.AnsiRender
