import RichModel.Model.Term
import RichModel.Model.Cells
/-
Model of rich/live.py, rich/live_render.py, the live part of rich/progress.py, and rich/status.py
(Rich 9.10.0), as a state machine that emits terminal operations.  Imports only `Model/Term` and `Model/Cells` (core Lean).

What is modelled, statement by statement
* `LiveRender.position_cursor` / `restore_cursor` (live_render.py:31-51) from the *recorded* shape;
* `_LiveRender.__rich_console__` (live.py:53-87): crop of every line to the console width, `get_shape`,
  `vertical_overflow` crop / ellipsis / visible against `console.size.height`, shape := shape of what is emitted;
* `LiveRender.__rich_console__` (live_render.py:53-75, used by Progress): running maximum of the shape,
  `Segment.set_shape` padding, everything emitted as control segments;
* `Live.start/stop/update/refresh/process_renderables`, `Progress.start/stop/refresh/add_task/advance/
  update/remove_task/process_renderables`, `Status.update` (status.py: a transient `Live` around a
  two-column grid);
* the hook stack depth (`Console._render_hooks`), `sys.stdout` / `sys.stderr` redirection through
  `FileProxy` (`_enable_redirect_io` / `_disable_redirect_io`), cursor visibility, the `try/finally` of `stop`;
* exceptions: the renderable (Live) / a progress column (Progress) raises on the call indices selected by an
  arbitrary predicate `fails`; `KeyError` for unknown task ids.  Every operation returns the new state, what
  was written to the terminal, and the error it raised (if any) — never a silent default.

Parameters (not modelled further): what the user renderable yields is given as a list of plain lines
(`Frame`); user output of `print` / `log` is given as the list of lines a console *without* a live
display writes for the same call.  Widths are cell widths (`Cfg.cw`; crops and paddings count cells, a wide character occupies two cells of
the screen).  Consoles: terminals, dumb terminals and files
(`Cfg.terminal`, `Cfg.dumb`; the screen theorems are about `Cfg.plain`); not Jupyter, not legacy Windows;
`auto_refresh=False`.  The console width may change (`Op.resize`); `Progress(disable=True)` is `Cfg.disable`;
the spinner of a Status is the opaque function `Cfg.spin` of the render count.

CODE VARIANT FLAGS (in `Cfg`): `bareBypass = true` is rich 9.10.0 as found, where `console.print()` /
`console.log()` without arguments call `Console.line()` and bypass the render hooks (finding F19; repaired by fix b373465);
`startGuard = false` is the as-found `Progress.start` (repaired by fix 4e4f7e5), which pushes the hook, redirects io, hides the cursor
and *then* calls `refresh()` unprotected; `resetShape = false` is the as-found `stop` (repaired by fix b4577f9), which keeps the
recorded shape of the last frame (a later `start` then erases rows that belong to finished output) and
leaves `vertical_overflow` at `"visible"`; `blankFix = false` is the as-found `restore_cursor` (repaired by fix bd10e80), which goes up
`height` rows, so a transient display whose last frame is empty leaves one blank line behind;
`flushFix = false` is the as-found `stop` (repaired by fix 4c3921f), which does not flush the FileProxy objects before its last refresh:
text pending from `print(..., end="")` is only written when the proxy object dies in
`_disable_redirect_io` — after the last frame, through the still installed hook.  `guardBase = false` is the guard
`except Exception:` that fix 4e4f7e5 gave `Progress.start` (a KeyboardInterrupt / SystemExit / GeneratorExit from the
renderable, `faultBase`, got past it; repaired by fix fc3f517: `except BaseException`);
`disableFix = false` is the as-found `stop` of a `Progress(disable=True)`, which still wrote its line feed (repaired by fix 363ded9).
/repo contains all seven repairs: `bareBypass = false` and the other six flags `true` (the values the harness passes;
the defaults of the `Cfg` structure below are the as-found values).
-/
namespace RichModel.Live
open RichModel

abbrev Line := List Char
abbrev Frame := List Line

inductive Overflow where
  | crop | ellipsis | visible
deriving Repr, DecidableEq

inductive Kind where
  | live | progress | status
deriving Repr, DecidableEq

inductive Err where
  | fault      -- the exception injected into the renderable / column
  | keyError   -- unknown task id
deriving Repr, DecidableEq

structure Cfg where
  kind : Kind
  transient : Bool
  width : Nat
  height : Nat
  redirectStdout : Bool := true
  redirectStderr : Bool := true
  bareBypass : Bool := true
  startGuard : Bool := false
  resetShape : Bool := false
  blankFix : Bool := false
  flushFix : Bool := false
  terminal : Bool := true                   -- `console.is_terminal`
  dumb : Bool := false                      -- `console.is_dumb_terminal` (implies `terminal`)
  disable : Bool := false                   -- `Progress(disable=True)`
  faultBase : Bool := false                 -- the injected exception derives from BaseException only (KeyboardInterrupt, SystemExit, GeneratorExit)
  guardBase : Bool := false                 -- variant flag: `Progress.start` guards its first refresh with `except BaseException` (false: `except Exception`)
  disableFix : Bool := false                -- variant flag: a disabled Progress writes no line feed and erases nothing at `stop` (false: as found)
  spin : Nat → Char := fun _ => '⠋'         -- Status: what the spinner shows at the n-th render of the display (opaque)
  cw : Char → Nat := fun _ => 1             -- `get_character_cell_size` (the driver passes the table of rich/_cell_widths.py)

/-- A terminal that understands control codes: `show_cursor` / `Console.control` write something. -/
def Cfg.ansi (cfg : Cfg) : Bool := cfg.terminal && !cfg.dumb

/-- Does the guard around the first refresh of `Progress.start` catch the injected exception?
`except Exception:` (fix 4e4f7e5) lets KeyboardInterrupt / SystemExit / GeneratorExit through. -/
def Cfg.guards (cfg : Cfg) : Bool := cfg.startGuard && (cfg.guardBase || !cfg.faultBase)

/-- The repaired `Progress.stop` of a disabled display: no line feed, nothing to erase. -/
def Cfg.quietStop (cfg : Cfg) : Bool := cfg.disableFix && cfg.disable

/-- The configurations the screen theorems are about. -/
def Cfg.plain (cfg : Cfg) : Bool := cfg.terminal && !cfg.dumb && !cfg.disable

structure Task where
  id : Nat
  desc : Line
  completed : Nat
  total : Nat
  visible : Bool
deriving Repr, DecidableEq

/-- The keyword arguments of `Progress.update` / `Progress.reset` that change what a row shows. -/
structure Edit where
  total : Option Nat := none
  advance : Option Nat := none
  completed : Option Nat := none
  desc : Option Line := none
  visible : Option Bool := none
deriving Repr, DecidableEq

structure St where
  started : Bool := false
  shape : Option (Nat × Nat) := none        -- `_live_render._shape` (width, height)
  renderable : Frame := []                  -- Live: lines the renderable yields; Progress: the row texts of the tasks table built by the last refresh
  overflow : Overflow := .ellipsis          -- `Live.vertical_overflow` (mutated by `stop`)
  overflow0 : Overflow := .ellipsis         -- `vertical_overflow` as saved on entry of the last `stop` (used by the repaired code only)
  hooks : Nat := 0                          -- len(console._render_hooks)
  stdoutDepth : Nat := 0                    -- how many FileProxy objects wrap the original sys.stdout
  stderrDepth : Nat := 0
  restoreStdout : Option Nat := none        -- `_restore_stdout`
  restoreStderr : Option Nat := none
  bufOut : Line := []                       -- text without a final new line pending in the FileProxy that is sys.stdout
  bufErr : Line := []                       -- … in the FileProxy that is sys.stderr
  tasks : List Task := []                   -- `Progress._tasks` in insertion order
  taskIndex : Nat := 0
  calls : Nat := 0                          -- number of calls made so far to the fault-injectable callable
  width : Option Nat := none                -- `console._width` after a resize (`none`: still `cfg.width`)
deriving Repr, DecidableEq

inductive Op where
  | start
  | stop
  | print (lines : List Line)                       -- console.print / log / builtin print through FileProxy
  | printBare                                       -- console.print() / console.log() with no arguments
  | update (f : Frame) (refresh : Bool)             -- Live.update ; Status.update (always refreshes)
  | refresh
  | addTask (desc : Line) (visible : Bool) (total : Nat)
  | updateTask (id : Nat) (e : Edit) (refresh : Bool)  -- Progress.update / advance / reset (reset always refreshes) / one step of track
  | removeTask (id : Nat)
  | resize (w : Nat)                                -- the console width changes (`console._width = w`)
  | write (err : Bool) (lines : List Line) (tail : Line)   -- sys.stdout / sys.stderr .write("\n".join(lines + [tail]))
deriving Repr, DecidableEq

/-- What one operation did: new state, characters written, exception raised. -/
structure Res where
  st : St
  out : List TermOp := []
  err : Option Err := none
deriving Repr, DecidableEq

/-! ## escape sequences -/

def textOp (l : Line) : List TermOp := if l.isEmpty then [] else [.text l]

def eraseUp : Nat → List TermOp
  | 0 => []
  | n + 1 => .cuu 1 :: .el2 :: eraseUp n

/-- `LiveRender.position_cursor`: `"\r\x1b[2K" + "\x1b[1A\x1b[2K" * (height - 1)`. -/
def positionCursor : Option (Nat × Nat) → List TermOp
  | none => []
  | some (_, h) => .cr :: .el2 :: eraseUp (h - 1)

/-- How many rows `restore_cursor` goes up: `height` in today's code; `max(height, 1)` in the repaired
code (an empty frame still occupies the row the final line feed left). -/
def restoreCount (fix : Bool) (h : Nat) : Nat := if fix then max h 1 else h

/-- `LiveRender.restore_cursor`: `"\r" + "\x1b[1A\x1b[2K" * height`. -/
def restoreCursor (fix : Bool) : Option (Nat × Nat) → List TermOp
  | none => []
  | some (_, h) => .cr :: eraseUp (restoreCount fix h)

/-- User output: every line is followed by a line feed. -/
def emitLines : List Line → List TermOp
  | [] => []
  | l :: rest => textOp l ++ .lf :: emitLines rest

/-- A frame: lines separated (not terminated) by line feeds (`loop_last`). -/
def emitFrame : Frame → List TermOp
  | [] => []
  | [l] => textOp l
  | l :: rest => textOp l ++ .lf :: emitFrame rest

/-! ## shapes -/

/-- The terminal cells a line occupies: a character of width 2 is followed by a filler cell (`'\x00'`),
a character of width 0 takes none. -/
def cells (cw : Char → Nat) (l : Line) : Line :=
  l.flatMap (fun c => if cw c = 0 then [] else c :: List.replicate (cw c - 1) '\x00')

def maxWidth (cw : Char → Nat) : Frame → Nat
  | [] => 0
  | l :: rest => max (cellLen cw l) (maxWidth cw rest)

/-- `Segment.get_shape`: widths are cell widths. -/
def getShape (cw : Char → Nat) (f : Frame) : Nat × Nat := (maxWidth cw f, f.length)

def padTo (cw : Char → Nat) (w : Nat) (l : Line) : Line := l ++ List.replicate (w - cellLen cw l) ' '

/-- `Segment.set_shape(lines, width, height)` for `width ≥` every line (so nothing is cropped). -/
def setShape (cw : Char → Nat) (f : Frame) (w h : Nat) : Frame :=
  f.map (padTo cw w) ++ List.replicate (h - f.length) (List.replicate w ' ')

/-- `render_lines(..., pad=False)` crops a line to the console width in *cells* (`adjust_line_length` →
`set_cell_size`: a double-width character that straddles the edge is replaced by a space). -/
def cropLine (cw : Char → Nat) (w : Nat) (l : Line) : Line :=
  if cellLen cw l > w then setCellSize cw l w else l

/-- A cell wider than its column: the column is `no_wrap` with overflow `"ellipsis"`, so the text is
`Text.truncate(width, overflow="ellipsis")`: `set_cell_size(plain, width - 1) + "…"`.  (Stated here with
`Model/Cells` only, so that importers of this file do not see the Text model's names; that this *is*
`Text.truncate` of the Text model of C05 is `truncRow_eq_truncate` in `Lemmas/LiveText.lean`.) -/
def truncRow (cw : Char → Nat) (w : Nat) (row : Line) : Line :=
  if cellLen cw row > w then setCellSize cw row (w - 1) ++ ['…'] else row

/-- The one-column grid rendered at console width `w`: the column is as wide as its widest row but never
wider than the console (`_collapse_widths` / `ratio_reduce` on a column that cannot wrap); every cell is
truncated to it and padded to it. -/
def tableLines (cw : Char → Nat) (w : Nat) (rows : Frame) : Frame :=
  let colw := min (maxWidth cw rows) w
  rows.map (fun r => padTo cw colw (truncRow cw colw r))

/-- The line `Text("...", overflow="crop", justify="center", end="")` renders to at width `w ≥ 3`. -/
def ellipsisLine (w : Nat) : Line :=
  List.replicate ((w - 3) / 2) ' ' ++ ['.', '.', '.'] ++ List.replicate ((w - 3) - (w - 3) / 2) ' '

/-- `_LiveRender.__rich_console__` up to the shape assignment: the lines that are emitted. -/
def liveFrame (cw : Char → Nat) (w h : Nat) (ov : Overflow) (r : Frame) : Frame :=
  let lines := r.map (cropLine cw w)
  if lines.length > h then
    match ov with
    | .crop => lines.take h
    | .ellipsis => lines.take (h - 1) ++ [ellipsisLine w]
    | .visible => lines
  else lines

/-- `LiveRender.__rich_console__` (Progress): new shape (running maximum) and the padded lines. -/
def progressFrame (cw : Char → Nat) (w : Nat) (shape : Option (Nat × Nat)) (r : Frame) : Frame × (Nat × Nat) :=
  let lines := tableLines cw w r
  let s1 := getShape cw lines
  let s := match shape with
    | none => s1
    | some (w2, h2) => (max s1.1 (min w w2), max s1.2 h2)
  (setShape cw lines s.1 s.2, s)

/-- `console.width` right now. -/
def curWidth (cfg : Cfg) (st : St) : Nat := st.width.getD cfg.width

/-! ## Progress tasks table and Status grid -/

def natLine (n : Nat) : Line := (toString n).toList

def taskRow (t : Task) : Line := t.desc ++ ' ' :: natLine t.completed ++ '/' :: natLine t.total

/-- The table with every cell padded to the widest row (what `tableLines` gives when all rows fit the
console) — kept for importers written before rows could be truncated. -/
def tasksTable (cw : Char → Nat) (tasks : List Task) : Frame :=
  let rows := (tasks.filter (·.visible)).map taskRow
  rows.map (padTo cw (maxWidth cw rows))

/-- `Progress.update` / `reset`: total, advance, completed, description, visible — in this order. -/
def Edit.apply (e : Edit) (t : Task) : Task :=
  let t := match e.total with | some n => { t with total := n } | none => t
  let t := match e.advance with | some n => { t with completed := t.completed + n } | none => t
  let t := match e.completed with | some n => { t with completed := n } | none => t
  let t := match e.desc with | some d => { t with desc := d } | none => t
  match e.visible with | some v => { t with visible := v } | none => t

/-- `make_tasks_table` with the single column `"{task.description} {task.completed}/{task.total}"`: the
texts of the rows, one per visible task (laid out at render time, see `tableLines`). -/
def taskRows (tasks : List Task) : Frame := (tasks.filter (·.visible)).map taskRow

/-- What the spinner cell shows is replaced at every render (`Cfg.spin`). -/
def respin (c : Char) : Frame → Frame
  | (_ :: l) :: rest => (c :: l) :: rest
  | f => f

/-- `Status.renderable`: `Table.grid(padding=1)` with the row (spinner, status); the first character is
the spinner cell (re-rendered by `respin` each time the display is drawn). -/
def statusFrame (cw : Char → Nat) (lines : Frame) : Frame :=
  let w := maxWidth cw lines
  match lines with
  | [] => []
  | l :: rest => ('⠋' :: ' ' :: padTo cw w l) :: rest.map (fun l => ' ' :: ' ' :: padTo cw w l)

def findTask (tasks : List Task) (id : Nat) : Option Task := tasks.find? (·.id == id)

def replaceTask (tasks : List Task) (t : Task) : List Task :=
  if (tasks.any (·.id == t.id)) then tasks.map (fun u => if u.id == t.id then t else u) else tasks ++ [t]

/-! ## the state machine -/

/-- The renderable as it is rendered now (the spinner of a Status moves). -/
def rendered (cfg : Cfg) (st : St) : Frame :=
  if cfg.kind == .status then respin (cfg.spin st.calls) st.renderable else st.renderable

/-- User lines as written to the terminal (in cells). -/
def emitCells (cfg : Cfg) (user : List Line) : List TermOp := emitLines (user.map (cells cfg.cw))

/-- `console.print(*objects)` on a terminal, rewritten by `process_renderables` while the hook is installed:
`[position_cursor, *user, live_render]`.  For a Live the renderable is called (one call index). -/
def hooked (cfg : Cfg) (fails : Nat → Bool) (st : St) (user : List Line) : Res :=
  match cfg.kind with
  | .progress =>
    let (f, s) := progressFrame cfg.cw (curWidth cfg st) st.shape st.renderable
    { st := { st with shape := some s }, out := positionCursor st.shape ++ emitCells cfg user ++ emitFrame (f.map (cells cfg.cw)) }
  | _ =>
    let st1 := { st with calls := st.calls + 1, renderable := rendered cfg st }
    if fails st.calls then { st := { st with calls := st.calls + 1 }, err := some .fault }
    else
      let f := liveFrame cfg.cw (curWidth cfg st) cfg.height st.overflow st1.renderable
      { st := { st1 with shape := some (getShape cfg.cw f) }, out := positionCursor st.shape ++ emitCells cfg user ++ emitFrame (f.map (cells cfg.cw)) }

/-- The same for a Live writing to a file (not a terminal) once it is finished and not transient:
`[*user, live_render]` — no cursor movement, the frame simply follows. -/
def hookedFile (cfg : Cfg) (fails : Nat → Bool) (st : St) (user : List Line) : Res :=
  let st1 := { st with calls := st.calls + 1, renderable := rendered cfg st }
  if fails st.calls then { st := { st with calls := st.calls + 1 }, err := some .fault }
  else
    let f := liveFrame cfg.cw (curWidth cfg st) cfg.height st.overflow st1.renderable
    { st := { st1 with shape := some (getShape cfg.cw f) }, out := emitCells cfg user ++ emitFrame (f.map (cells cfg.cw)) }

/-- A print call: through the hook when one is installed (`process_renderables`), plain otherwise. -/
def doPrint (cfg : Cfg) (fails : Nat → Bool) (st : St) (user : List Line) : Res :=
  if st.hooks > 0 then
    if cfg.terminal then hooked cfg fails st user
    else if cfg.kind != .progress && !st.started && !cfg.transient then hookedFile cfg fails st user
    else { st := st, out := emitCells cfg user }
  else { st := st, out := emitCells cfg user }

/-- Calls of the progress column for the visible tasks, in order; `none` when one of them raises. -/
def columnCalls (fails : Nat → Bool) : Nat → List Task → Nat × Bool
  | c, [] => (c, true)
  | c, t :: rest =>
    if t.visible then (if fails c then (c + 1, false) else columnCalls fails (c + 1) rest)
    else columnCalls fails c rest

/-- `Live.refresh` / `Progress.refresh`. -/
def doRefresh (cfg : Cfg) (fails : Nat → Bool) (st : St) : Res :=
  match cfg.kind with
  | .progress =>
    if cfg.disable || !cfg.ansi then { st := st }     -- `if not self.disable:` … `elif is_terminal and not is_dumb_terminal:`
    else
      let (c, ok) := columnCalls fails st.calls st.tasks
      let st1 := { st with calls := c }
      if !ok then { st := st1, err := some .fault }
      else
        let st2 := { st1 with renderable := taskRows st.tasks }
        if st2.hooks > 0 then hooked cfg fails st2 [] else { st := st2 }
  | _ =>
    if cfg.ansi then (if st.hooks > 0 then hooked cfg fails st [] else { st := st })
    else if !st.started && !cfg.transient then doPrint cfg fails st []   -- files / dumb terminals see the final result
    else { st := st }

/-! ### FileProxy: the stream buffers -/

/-- Is `sys.stdout` (`err = false`) / `sys.stderr` (`err = true`) a FileProxy right now? -/
def proxied (st : St) (err : Bool) : Bool := if err then st.stderrDepth > 0 else st.stdoutDepth > 0

def getBuf (st : St) (err : Bool) : Line := if err then st.bufErr else st.bufOut

def setBuf (st : St) (err : Bool) (b : Line) : St := if err then { st with bufErr := b } else { st with bufOut := b }

/-- `FileProxy.write`: complete lines are printed through the console (the first one prefixed by what
was pending), the rest stays pending.  A stream that is not redirected does not reach the console. -/
def doWrite (cfg : Cfg) (fails : Nat → Bool) (st : St) (err : Bool) (lines : List Line) (tail : Line) : Res :=
  if !proxied st err then { st := st }
  else match lines with
    | [] => { st := setBuf st err (getBuf st err ++ tail) }
    | l :: rest => doPrint cfg fails (setBuf st err tail) ((getBuf st err ++ l) :: rest)

/-- `FileProxy.flush()` called on a live proxy (repaired `stop`): pending text is printed; an exception
propagates and the text stays pending. -/
def flushLive (cfg : Cfg) (fails : Nat → Bool) (st : St) (err : Bool) : Res :=
  if proxied st err && !(getBuf st err).isEmpty then
    let r := doPrint cfg fails st [getBuf st err]
    match r.err with
    | some _ => r
    | none => { r with st := setBuf r.st err [] }
  else { st := st }

/-- `sys.stdout = self._restore_stdout`: the FileProxy object dies (CPython: at once), `IOBase.__del__`
closes it, `close()` flushes: pending text is printed *now*; an exception in `__del__` is ignored. -/
def flushDead (cfg : Cfg) (fails : Nat → Bool) (st : St) (err : Bool) : Res :=
  if (if err then st.restoreStderr.isSome else st.restoreStdout.isSome) && !(getBuf st err).isEmpty then
    let r := doPrint cfg fails (setBuf st err []) [getBuf st err]
    { st := r.st, out := r.out }
  else { st := st }

/-- What `_disable_redirect_io` writes (stdout first, then stderr).  `alive`: the stream whose proxy
outlives the call because the exception in flight was raised inside its `flush()` (the traceback
references it) — that one is not flushed here. -/
def dropFlush (cfg : Cfg) (fails : Nat → Bool) (st : St) (alive : Option Bool := none) : Res :=
  let r1 := if alive == some false then { st := st } else flushDead cfg fails st false
  let r2 := if alive == some true then { st := r1.st } else flushDead cfg fails r1.st true
  { st := r2.st, out := r1.out ++ r2.out }

/-- …it dies when the exception is disposed of, after `stop` has run its `finally:` block: what was
pending is then printed by a console that has no hook any more. -/
def lateFlush (cfg : Cfg) (fails : Nat → Bool) (st : St) : Option Bool → Res
  | none => { st := st }
  | some e =>
    if (getBuf st e).isEmpty then { st := st }
    else
      let r := doPrint cfg fails (setBuf st e []) [getBuf st e]
      { st := r.st, out := r.out }

def enableRedirect (cfg : Cfg) (st : St) : St :=
  if !cfg.terminal then st else
  let st := if cfg.redirectStdout then { st with restoreStdout := some st.stdoutDepth, stdoutDepth := st.stdoutDepth + 1, bufOut := [] } else st
  if cfg.redirectStderr then { st with restoreStderr := some st.stderrDepth, stderrDepth := st.stderrDepth + 1, bufErr := [] } else st

def disableRedirect (st : St) : St :=
  let st := match st.restoreStdout with
    | some d => { st with stdoutDepth := d, restoreStdout := none }
    | none => st
  match st.restoreStderr with
  | some d => { st with stderrDepth := d, restoreStderr := none }
  | none => st

/-- The `finally:` block of `stop`: restore io, pop the hook, show the cursor. -/
def cleanup (st : St) : St := { disableRedirect st with hooks := st.hooks - 1 }

/-- The repaired `stop` forgets the shape of the frame it leaves behind (`_live_render._shape = None`)
and puts `vertical_overflow` back to what it was when `stop` was entered. -/
def resetSt (cfg : Cfg) (st : St) : St :=
  if cfg.resetShape then { st with shape := none, overflow := st.overflow0 } else st

/-- `console.show_cursor(True / False)`: nothing unless the console is a terminal that is not dumb. -/
def showOp (cfg : Cfg) : List TermOp := if cfg.ansi then [.showCursor] else []
def hideOp (cfg : Cfg) : List TermOp := if cfg.ansi then [.hideCursor] else []

/-- The `finally:` block of `stop` as written to the terminal: Live restores io, pops the hook, shows the
cursor; Progress shows the cursor first.  `o` is what dropping the proxies wrote. -/
def finOut (cfg : Cfg) (o : List TermOp) : List TermOp :=
  match cfg.kind with
  | .progress => showOp cfg ++ o
  | _ => o ++ showOp cfg

/-- `stop` after its last `refresh()` returned `r`: line feed, the `finally:` block, the transient erase. -/
def stopTail (cfg : Cfg) (fails : Nat → Bool) (r : Res) (alive : Option Bool := none) : Res :=
  let d := dropFlush cfg fails r.st alive
  match r.err with
  | some e =>
    let l := lateFlush cfg fails (cleanup d.st) alive
    { st := l.st, out := r.out ++ finOut cfg d.out ++ l.out, err := some e }
  | none =>
    { st := resetSt cfg (cleanup d.st),
      out := r.out ++ (if cfg.terminal && !cfg.quietStop then [.lf] else []) ++ finOut cfg d.out ++
        (if cfg.transient && cfg.ansi && !cfg.quietStop then restoreCursor cfg.blankFix (cleanup d.st).shape else []) }

/-- The state `stop` hands to its last refresh: `_started = False`, and for a Live
`vertical_overflow = "visible"`. -/
def stopSt (cfg : Cfg) (st : St) : St :=
  match cfg.kind with
  | .progress => { st with started := false }
  | _ => { st with started := false, overflow0 := st.overflow, overflow := .visible }

/-- `Live.stop` / `Progress.stop`. -/
def doStop (cfg : Cfg) (fails : Nat → Bool) (st : St) : Res :=
  if !st.started then { st := st }
  else if cfg.flushFix then
    -- repaired: what `print(..., end="")` left pending is printed above the display first
    let r1 := flushLive cfg fails { st with started := false } false
    match r1.err with
    | some _ => stopTail cfg fails r1 (some false)
    | none =>
      let r2 := flushLive cfg fails r1.st true
      match r2.err with
      | some _ => stopTail cfg fails { r2 with out := r1.out ++ r2.out } (some true)
      | none =>
        let r := doRefresh cfg fails (stopSt cfg r2.st)
        stopTail cfg fails { r with out := r1.out ++ r2.out ++ r.out }
  else stopTail cfg fails (doRefresh cfg fails (stopSt cfg st))

/-- `Live.start` / `Progress.start`. -/
def doStart (cfg : Cfg) (fails : Nat → Bool) (st : St) : Res :=
  if st.started then { st := st }
  else
    let st1 := { enableRedirect cfg st with started := true, hooks := st.hooks + 1 }
    match cfg.kind with
    | .progress =>
      let r := doRefresh cfg fails st1
      match r.err with
      | none => { st := r.st, out := hideOp cfg ++ r.out }
      | some e =>
        if cfg.guards then   -- `except Exception:` lets a BaseException through
          let r2 := doStop cfg fails r.st
          { st := r2.st, out := hideOp cfg ++ r.out ++ r2.out, err := some (r2.err.getD e) }
        else { st := r.st, out := hideOp cfg ++ r.out, err := some e }
    | _ => { st := st1, out := hideOp cfg }

/-- `add_task` up to the refresh: the new task is stored under the current index. -/
def addTaskSt (st : St) (desc : Line) (visible : Bool) (total : Nat) : St :=
  { st with tasks := replaceTask st.tasks { id := st.taskIndex, desc := desc, completed := 0, total := total, visible := visible } }

/-- `finally: self._task_index = TaskID(int(self._task_index) + 1)`. -/
def bumpIndex (st : St) : St := { st with taskIndex := st.taskIndex + 1 }

def step (cfg : Cfg) (fails : Nat → Bool) (st : St) : Op → Res
  | .start => doStart cfg fails st
  | .stop => doStop cfg fails st
  | .print ls => doPrint cfg fails st ls
  | .printBare =>
    if cfg.bareBypass then { st := st, out := [.lf] } else doPrint cfg fails st [[]]
  | .update f refresh =>
    match cfg.kind with
    | .live =>
      let st1 := { st with renderable := f }
      if refresh then doRefresh cfg fails st1 else { st := st1 }
    | .status => doRefresh cfg fails { st with renderable := statusFrame cfg.cw f }
    | .progress => { st := st }   -- not an operation of Progress (the driver answers `unmodelled`)
  | .refresh => doRefresh cfg fails st
  | .addTask desc visible total =>
    let r := doRefresh cfg fails (addTaskSt st desc visible total)
    match r.err with
    | some _ => r                                   -- raised before `_task_index` was advanced
    | none => { r with st := bumpIndex r.st }
  | .updateTask id e refresh =>
    match findTask st.tasks id with
    | none => { st := st, err := some .keyError }
    | some t =>
      let st1 := { st with tasks := replaceTask st.tasks (e.apply t) }
      if refresh then doRefresh cfg fails st1 else { st := st1 }
  | .removeTask id =>
    match findTask st.tasks id with
    | none => { st := st, err := some .keyError }
    | some _ => { st := { st with tasks := st.tasks.filter (fun u => !(u.id == id)) } }
  | .write err lines tail => doWrite cfg fails st err lines tail
  | .resize w => { st := { st with width := some w } }

/-- Is `op` an operation of this kind of display? (Others are never sent by the harness.) -/
def Op.applies (k : Kind) : Op → Bool
  | .update _ _ => k != .progress
  | .addTask _ _ _ | .updateTask _ _ _ | .removeTask _ => k == .progress
  | _ => true

def initSt (ov : Overflow) (r : Frame) : St := { overflow := ov, overflow0 := ov, renderable := r }

/-- A history where the caller catches whatever an operation raises and goes on
(`try: op() except: pass`): final state, everything written, the errors in order. -/
def run (cfg : Cfg) (fails : Nat → Bool) : St → List Op → St × List TermOp × List (Option Err)
  | st, [] => (st, [], [])
  | st, op :: rest =>
    let r := step cfg fails st op
    let (st', out, errs) := run cfg fails r.st rest
    (st', r.out ++ out, r.err :: errs)

/-- `with display: body` — `__enter__` = start; the body stops at the first operation that raises, or
just before operation number `raiseAt` when the body itself raises there; `__exit__` = stop is called
iff `__enter__` returned.  Result: final state, everything written, whether an exception left the block. -/
def runBody (cfg : Cfg) (fails : Nat → Bool) : St → List Op → Option Nat → St × List TermOp × Bool
  | st, _, some 0 => (st, [], true)
  | st, [], _ => (st, [], false)
  | st, op :: rest, raiseAt =>
    let r := step cfg fails st op
    match r.err with
    | some _ => (r.st, r.out, true)
    | none =>
      let (st', out, raised) := runBody cfg fails r.st rest (raiseAt.map (· - 1))
      (st', r.out ++ out, raised)

def runWith (cfg : Cfg) (fails : Nat → Bool) (st : St) (body : List Op) (raiseAt : Option Nat) :
    St × List TermOp × Bool :=
  let r0 := doStart cfg fails st
  match r0.err with
  | some _ => (r0.st, r0.out, true)          -- `__enter__` raised: `__exit__` is never called
  | none =>
    let (st1, out1, raised1) := runBody cfg fails r0.st body raiseAt
    let r2 := doStop cfg fails st1
    (r2.st, r0.out ++ out1 ++ r2.out, raised1 || r2.err.isSome)

/-! ## specification-level view of a history (what the screen is supposed to show)

Independent of the shape book-keeping: the printed lines are the concatenation of what the user
printed, the frame is the one displayed by the last operation that refreshes the display. -/

def noFault : Nat → Bool := fun _ => false

/-- The frame on display right after a refreshing operation that ended in state `st`. -/
def shown (cfg : Cfg) (st : St) : Frame :=
  match cfg.kind with
  | .progress =>
    match st.shape with
    | none => []
    | some (w, h) => setShape cfg.cw (tableLines cfg.cw (curWidth cfg st) st.renderable) w h
  | _ => liveFrame cfg.cw (curWidth cfg st) cfg.height st.overflow st.renderable

/-- Operations that call `refresh()` / print through the console. -/
def Op.displays (k : Kind) : Op → Bool
  | .print _ | .printBare | .refresh | .addTask _ _ _ => true
  | .update _ r => r || k == .status
  | .updateTask _ _ r => r
  | .write _ lines _ => !lines.isEmpty
  | _ => false

/-- Does `op`, executed in state `st`, redraw the live display?  (A refreshing operation while the hook
is installed; or `Progress.start`, which refreshes right after installing it.) -/
def reaches (st : St) : Op → Bool
  | .write err _ _ => proxied st err       -- a stream that is not redirected does not reach the console
  | _ => true

def redraws (cfg : Cfg) (st : St) (op : Op) : Bool :=
  (op.displays cfg.kind && st.hooks > 0 && reaches st op)
    || (op == .start && cfg.kind == .progress && !st.started)

structure View where
  printed : List Line := []
  frame : Frame := []
deriving Repr, DecidableEq

/-- One non-`stop` operation (a bare print counts as printing one empty line, whatever the code does). -/
def viewStep (cfg : Cfg) (st : St) (v : View) (op : Op) : View :=
  { printed := match op with
      | .print ls => v.printed ++ ls
      | .printBare => v.printed ++ [[]]
      | .write err (l :: rest) _ => if proxied st err then v.printed ++ (getBuf st err ++ l) :: rest else v.printed
      | _ => v.printed
    frame := if redraws cfg st op then shown cfg (step cfg noFault st op).st else v.frame }

/-- Text that `print(..., end="")` left pending in the redirected stream `e`, as the line the repaired
`stop` completes it to (`[]` if nothing is pending). -/
def pend (st : St) (e : Bool) : List Line :=
  if proxied st e && !(getBuf st e).isEmpty then [getBuf st e] else []

/-- What the repaired `stop` prints before its last refresh: pending stdout text, then pending stderr text
— above the display, below everything printed so far. -/
def pendLines (cfg : Cfg) (st : St) : List Line := if cfg.flushFix then pend st false ++ pend st true else []

/-- The state in which `stop` does its last refresh: after the two flushes of the repaired code. -/
def stopPre (cfg : Cfg) (st : St) : St :=
  if cfg.flushFix then
    (flushLive cfg noFault (flushLive cfg noFault { st with started := false } false).st true).st
  else st

/-- The frame the last refresh of `stop` puts on display (rendered `visible`). -/
def stopFrame (cfg : Cfg) (st : St) : Frame := shown cfg (doRefresh cfg noFault (stopSt cfg (stopPre cfg st))).st

/-- Do the frames drawn by the flushes of the repaired `stop` (ordinary prints: current overflow mode) fit? -/
def flushFits (cfg : Cfg) (st : St) : Bool :=
  let r1 := flushLive cfg noFault { st with started := false } false
  let r2 := flushLive cfg noFault r1.st true
  ((pend st false).isEmpty || (shown cfg r1.st).length ≤ cfg.height) &&
    ((pend st true).isEmpty || (shown cfg r2.st).length ≤ cfg.height)

/-- The final `stop`: pending stream text is completed above the display, last refresh (rendered
`visible`), then nothing if transient. -/
def viewStop (cfg : Cfg) (st : St) (v : View) : View :=
  if st.started then
    { printed := v.printed ++ pendLines cfg st, frame := if cfg.transient then [] else stopFrame cfg st }
  else v

/-- The specification-level run; `stop` ends it (well-formed histories have nothing after it). -/
def specRun (cfg : Cfg) : St → View → List Op → St × View
  | st, v, [] => (st, v)
  | st, v, op :: rest =>
    if op = .stop then ((doStop cfg noFault st).st, viewStop cfg st v)
    else specRun cfg (step cfg noFault st op).st (viewStep cfg st v op) rest

/-- Well-formed histories for the screen theorems (explicit and decidable):
every operation belongs to the display kind and raises nothing; `stop` occurs only as the last
operation; every frame put on display fits the screen (automatic for `crop` / `ellipsis`); a transient
display leaves one row for the final line feed; the frames redrawn when the repaired `stop` completes
pending stream text fit as well (`flushFits`). -/
def wfOps (cfg : Cfg) : St → List Op → Bool
  | _, [] => true
  | st, op :: rest =>
    if op = .stop then
      rest.isEmpty && (doStop cfg noFault st).err.isNone && (!st.started || flushFits cfg st) &&
        (!st.started || !cfg.transient || restoreCount cfg.blankFix (stopFrame cfg st).length + 1 ≤ cfg.height)
    else
      let r := step cfg noFault st op
      op.applies cfg.kind && r.err.isNone
        && (!redraws cfg st op || (shown cfg r.st).length ≤ cfg.height)
        && wfOps cfg r.st rest

def wf (cfg : Cfg) (ov : Overflow) (r0 : Frame) (h : List Op) : Bool :=
  cfg.plain && 1 ≤ cfg.height && wfOps cfg (initSt ov r0) h

def printed (cfg : Cfg) (ov : Overflow) (r0 : Frame) (h : List Op) : List Line :=
  (specRun cfg (initSt ov r0) {} h).2.printed

def lastFrame (cfg : Cfg) (ov : Overflow) (r0 : Frame) (h : List Op) : Frame :=
  (specRun cfg (initSt ov r0) {} h).2.frame

/-- Everything a history writes to the terminal. -/
def emit (cfg : Cfg) (ov : Overflow) (r0 : Frame) (h : List Op) : List TermOp :=
  (run cfg noFault (initSt ov r0) h).2.1

/-! ## any number of sessions on the same display object -/

/-- The rows a displayed frame occupies: an empty frame still has the (blank) row the cursor is on. -/
def region : Frame → Frame
  | [] => [[]]
  | l :: rest => l :: rest

/-- What a `stop` leaves as finished output: the whole last frame (at least the row of the line feed)
when not transient; nothing when transient — except, in today's code, the blank row an *empty* final
frame still costs (`blankFix = false`). -/
def leftBy (cfg : Cfg) (f : Frame) : List Line :=
  if cfg.transient then (if f.isEmpty && !cfg.blankFix then [[]] else []) else region f

/-- `stop` in the middle of a history: what the display leaves joins the finished output, nothing is on
display any more.  (`View.printed` is then: printed lines and frames left by stopped sessions, in order.) -/
def viewStopM (cfg : Cfg) (st : St) (v : View) : View :=
  if st.started then { printed := v.printed ++ pendLines cfg st ++ leftBy cfg (stopFrame cfg st), frame := [] } else v

def viewStepM (cfg : Cfg) (st : St) (v : View) (op : Op) : View :=
  if op = .stop then viewStopM cfg st v else viewStep cfg st v op

def specRunM (cfg : Cfg) : St → View → List Op → St × View
  | st, v, [] => (st, v)
  | st, v, op :: rest => specRunM cfg (step cfg noFault st op).st (viewStepM cfg st v op) rest

/-- Well-formed histories with any number of sessions: as `wfOps`, but `stop` may occur anywhere. -/
def wfOpsM (cfg : Cfg) : St → List Op → Bool
  | _, [] => true
  | st, op :: rest =>
    let r := step cfg noFault st op
    (if op = .stop then
      r.err.isNone && (!st.started || flushFits cfg st)
        && (!st.started || !cfg.transient || restoreCount cfg.blankFix (stopFrame cfg st).length + 1 ≤ cfg.height)
    else
      op.applies cfg.kind && r.err.isNone
        && (!redraws cfg st op || (shown cfg r.st).length ≤ cfg.height))
    && wfOpsM cfg r.st rest

def wfM (cfg : Cfg) (ov : Overflow) (r0 : Frame) (h : List Op) : Bool :=
  cfg.plain && 1 ≤ cfg.height && wfOpsM cfg (initSt ov r0) h

/-- Finished output of a multi-session history: printed lines and the frames left by stopped sessions. -/
def finished (cfg : Cfg) (ov : Overflow) (r0 : Frame) (h : List Op) : List Line :=
  (specRunM cfg (initSt ov r0) {} h).2.printed

/-- The frame of the session that is still running at the end of the history (`[]` if none). -/
def liveFrameOf (cfg : Cfg) (ov : Overflow) (r0 : Frame) (h : List Op) : Frame :=
  (specRunM cfg (initSt ov r0) {} h).2.frame

end RichModel.Live
