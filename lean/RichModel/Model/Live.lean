import RichModel.Model.Term
/-
Model of rich/live.py, rich/live_render.py, the live part of rich/progress.py, and rich/status.py
(Rich 9.10.0), as a state machine that emits terminal operations.  Import-free (core Lean only).

What is modelled, statement by statement
* `LiveRender.position_cursor` / `restore_cursor` (live_render.py:31-51) from the *recorded* shape;
* `_LiveRender.__rich_console__` (live.py:53-87): crop of every line to the console width, `get_shape`,
  `vertical_overflow` crop / ellipsis / visible against `console.size.height`, shape := shape of what is emitted;
* `LiveRender.__rich_console__` (live_render.py:53-75, used by Progress): running maximum of the shape,
  `Segment.set_shape` padding, everything emitted as control segments;
* `Live.start/stop/update/refresh/process_renderables`, `Progress.start/stop/refresh/add_task/advance/
  update/remove_task/process_renderables`, `Status.update` (status.py: a transient `Live` around a
  two-column grid);
* the hook stack depth (`Console._render_hooks`), `sys.stdout` / `sys.stderr` redirection through
  `FileProxy` (`_enable_redirect_io` / `_disable_redirect_io`), cursor visibility, the `try/finally` of `stop`;
* exceptions: the renderable (Live) / a progress column (Progress) raises on the call indices selected by an
  arbitrary predicate `fails`; `KeyError` for unknown task ids.  Every operation returns the new state, what
  was written to the terminal, and the error it raised (if any) — never a silent default.

Parameters (not modelled further): what the user renderable yields is given as a list of plain lines
(`Frame`); user output of `print` / `log` is given as the list of lines a console *without* a live
display writes for the same call.  Characters are assumed one cell wide.  The console is a terminal
(`is_terminal`, not dumb, not Jupyter, not legacy Windows); `auto_refresh=False`.

CODE VARIANT FLAGS (in `Cfg`): `bareBypass = true` is rich 9.10.0 as found, where `console.print()` /
`console.log()` without arguments call `Console.line()` and bypass the render hooks (finding F19; repaired by fix b373465);
`startGuard = false` is the as-found `Progress.start` (repaired by fix 4e4f7e5), which pushes the hook, redirects io, hides the cursor
and *then* calls `refresh()` unprotected; `resetShape = false` is the as-found `stop` (repaired by fix b4577f9), which keeps the
recorded shape of the last frame (a later `start` then erases rows that belong to finished output) and
leaves `vertical_overflow` at `"visible"`.  /repo contains the three repairs: `bareBypass = false`, `startGuard = true`,
`resetShape = true` (the values the harness passes).
-/
namespace RichModel.Live
open RichModel

abbrev Line := List Char
abbrev Frame := List Line

inductive Overflow where
  | crop | ellipsis | visible
deriving Repr, DecidableEq

inductive Kind where
  | live | progress | status
deriving Repr, DecidableEq

inductive Err where
  | fault      -- the exception injected into the renderable / column
  | keyError   -- unknown task id
deriving Repr, DecidableEq

structure Cfg where
  kind : Kind
  transient : Bool
  width : Nat
  height : Nat
  redirectStdout : Bool := true
  redirectStderr : Bool := true
  bareBypass : Bool := true
  startGuard : Bool := false
  resetShape : Bool := false
deriving Repr, DecidableEq

structure Task where
  id : Nat
  desc : Line
  completed : Nat
  visible : Bool
deriving Repr, DecidableEq

structure St where
  started : Bool := false
  shape : Option (Nat × Nat) := none        -- `_live_render._shape` (width, height)
  renderable : Frame := []                  -- Live: lines the renderable yields; Progress: the tasks table built by the last refresh
  overflow : Overflow := .ellipsis          -- `Live.vertical_overflow` (mutated by `stop`)
  overflow0 : Overflow := .ellipsis         -- `vertical_overflow` as saved on entry of the last `stop` (used by the repaired code only)
  hooks : Nat := 0                          -- len(console._render_hooks)
  stdoutDepth : Nat := 0                    -- how many FileProxy objects wrap the original sys.stdout
  stderrDepth : Nat := 0
  restoreStdout : Option Nat := none        -- `_restore_stdout`
  restoreStderr : Option Nat := none
  tasks : List Task := []                   -- `Progress._tasks` in insertion order
  taskIndex : Nat := 0
  calls : Nat := 0                          -- number of calls made so far to the fault-injectable callable
deriving Repr, DecidableEq

inductive Op where
  | start
  | stop
  | print (lines : List Line)                       -- console.print / log / builtin print through FileProxy
  | printBare                                       -- console.print() / console.log() with no arguments
  | update (f : Frame) (refresh : Bool)             -- Live.update ; Status.update (always refreshes)
  | refresh
  | addTask (desc : Line) (visible : Bool)
  | advance (id n : Nat)
  | setVisible (id : Nat) (v : Bool) (refresh : Bool)   -- Progress.update(id, visible=v, refresh=…)
  | removeTask (id : Nat)
deriving Repr, DecidableEq

/-- What one operation did: new state, characters written, exception raised. -/
structure Res where
  st : St
  out : List TermOp := []
  err : Option Err := none
deriving Repr, DecidableEq

/-! ## escape sequences -/

def textOp (l : Line) : List TermOp := if l.isEmpty then [] else [.text l]

def eraseUp : Nat → List TermOp
  | 0 => []
  | n + 1 => .cuu 1 :: .el2 :: eraseUp n

/-- `LiveRender.position_cursor`: `"\r\x1b[2K" + "\x1b[1A\x1b[2K" * (height - 1)`. -/
def positionCursor : Option (Nat × Nat) → List TermOp
  | none => []
  | some (_, h) => .cr :: .el2 :: eraseUp (h - 1)

/-- `LiveRender.restore_cursor`: `"\r" + "\x1b[1A\x1b[2K" * height`. -/
def restoreCursor : Option (Nat × Nat) → List TermOp
  | none => []
  | some (_, h) => .cr :: eraseUp h

/-- User output: every line is followed by a line feed. -/
def emitLines : List Line → List TermOp
  | [] => []
  | l :: rest => textOp l ++ .lf :: emitLines rest

/-- A frame: lines separated (not terminated) by line feeds (`loop_last`). -/
def emitFrame : Frame → List TermOp
  | [] => []
  | [l] => textOp l
  | l :: rest => textOp l ++ .lf :: emitFrame rest

/-! ## shapes -/

def maxWidth : Frame → Nat
  | [] => 0
  | l :: rest => max l.length (maxWidth rest)

/-- `Segment.get_shape`. -/
def getShape (f : Frame) : Nat × Nat := (maxWidth f, f.length)

def padTo (w : Nat) (l : Line) : Line := l ++ List.replicate (w - l.length) ' '

/-- `Segment.set_shape(lines, width, height)` for `width ≥` every line (so nothing is cropped). -/
def setShape (f : Frame) (w h : Nat) : Frame :=
  f.map (padTo w) ++ List.replicate (h - f.length) (List.replicate w ' ')

/-- The line `Text("...", overflow="crop", justify="center", end="")` renders to at width `w ≥ 3`. -/
def ellipsisLine (w : Nat) : Line :=
  List.replicate ((w - 3) / 2) ' ' ++ ['.', '.', '.'] ++ List.replicate ((w - 3) - (w - 3) / 2) ' '

/-- `_LiveRender.__rich_console__` up to the shape assignment: the lines that are emitted. -/
def liveFrame (cfg : Cfg) (ov : Overflow) (r : Frame) : Frame :=
  let lines := r.map (List.take cfg.width)
  if lines.length > cfg.height then
    match ov with
    | .crop => lines.take cfg.height
    | .ellipsis => lines.take (cfg.height - 1) ++ [ellipsisLine cfg.width]
    | .visible => lines
  else lines

/-- `LiveRender.__rich_console__` (Progress): new shape (running maximum) and the padded lines. -/
def progressFrame (cfg : Cfg) (shape : Option (Nat × Nat)) (r : Frame) : Frame × (Nat × Nat) :=
  let lines := r.map (List.take cfg.width)
  let s1 := getShape lines
  let s := match shape with
    | none => s1
    | some (w2, h2) => (max s1.1 (min cfg.width w2), max s1.2 h2)
  (setShape lines s.1 s.2, s)

/-- The frame a hooked print displays in state `st`, and the shape it records. -/
def frameNow (cfg : Cfg) (st : St) : Frame × (Nat × Nat) :=
  match cfg.kind with
  | .progress => progressFrame cfg st.shape st.renderable
  | _ => let f := liveFrame cfg st.overflow st.renderable; (f, getShape f)

/-! ## Progress tasks table and Status grid -/

def natLine (n : Nat) : Line := (toString n).toList

def taskRow (t : Task) : Line := t.desc ++ ' ' :: natLine t.completed

/-- `make_tasks_table` with the single column `"{task.description} {task.completed}"`: one row per
visible task, cells padded to the widest. -/
def tasksTable (tasks : List Task) : Frame :=
  let rows := (tasks.filter (·.visible)).map taskRow
  rows.map (padTo (maxWidth rows))

/-- `Status.renderable`: `Table.grid(padding=1)` with the row (spinner, status); the spinner shows
its first frame (the clock is frozen). -/
def statusFrame (lines : Frame) : Frame :=
  let w := maxWidth lines
  match lines with
  | [] => []
  | l :: rest => ('⠋' :: ' ' :: padTo w l) :: rest.map (fun l => ' ' :: ' ' :: padTo w l)

def findTask (tasks : List Task) (id : Nat) : Option Task := tasks.find? (·.id == id)

def replaceTask (tasks : List Task) (t : Task) : List Task :=
  if (tasks.any (·.id == t.id)) then tasks.map (fun u => if u.id == t.id then t else u) else tasks ++ [t]

/-! ## the state machine -/

/-- `console.print(*objects)` rewritten by `process_renderables` while the hook is installed:
`[position_cursor, *user, live_render]`.  For a Live the renderable is called (one call index). -/
def hooked (cfg : Cfg) (fails : Nat → Bool) (st : St) (user : List Line) : Res :=
  match cfg.kind with
  | .progress =>
    let (f, s) := progressFrame cfg st.shape st.renderable
    { st := { st with shape := some s }, out := positionCursor st.shape ++ emitLines user ++ emitFrame f }
  | _ =>
    let st1 := { st with calls := st.calls + 1 }
    if fails st.calls then { st := st1, err := some .fault }
    else
      let f := liveFrame cfg st.overflow st.renderable
      { st := { st1 with shape := some (getShape f) }, out := positionCursor st.shape ++ emitLines user ++ emitFrame f }

/-- A print call: through the hook when one is installed, plain otherwise. -/
def doPrint (cfg : Cfg) (fails : Nat → Bool) (st : St) (user : List Line) : Res :=
  if st.hooks > 0 then hooked cfg fails st user else { st := st, out := emitLines user }

/-- Calls of the progress column for the visible tasks, in order; `none` when one of them raises. -/
def columnCalls (fails : Nat → Bool) : Nat → List Task → Nat × Bool
  | c, [] => (c, true)
  | c, t :: rest =>
    if t.visible then (if fails c then (c + 1, false) else columnCalls fails (c + 1) rest)
    else columnCalls fails c rest

/-- `Live.refresh` / `Progress.refresh` on a terminal. -/
def doRefresh (cfg : Cfg) (fails : Nat → Bool) (st : St) : Res :=
  match cfg.kind with
  | .progress =>
    let (c, ok) := columnCalls fails st.calls st.tasks
    let st1 := { st with calls := c }
    if !ok then { st := st1, err := some .fault }
    else
      let st2 := { st1 with renderable := tasksTable st.tasks }
      if st2.hooks > 0 then hooked cfg fails st2 [] else { st := st2 }
  | _ => if st.hooks > 0 then hooked cfg fails st [] else { st := st }

def enableRedirect (cfg : Cfg) (st : St) : St :=
  let st := if cfg.redirectStdout then { st with restoreStdout := some st.stdoutDepth, stdoutDepth := st.stdoutDepth + 1 } else st
  if cfg.redirectStderr then { st with restoreStderr := some st.stderrDepth, stderrDepth := st.stderrDepth + 1 } else st

def disableRedirect (st : St) : St :=
  let st := match st.restoreStdout with
    | some d => { st with stdoutDepth := d, restoreStdout := none }
    | none => st
  match st.restoreStderr with
  | some d => { st with stderrDepth := d, restoreStderr := none }
  | none => st

/-- The `finally:` block of `stop`: restore io, pop the hook, show the cursor. -/
def cleanup (st : St) : St := { disableRedirect st with hooks := st.hooks - 1 }

/-- The repaired `stop` forgets the shape of the frame it leaves behind (`_live_render._shape = None`)
and puts `vertical_overflow` back to what it was when `stop` was entered. -/
def resetSt (cfg : Cfg) (st : St) : St :=
  if cfg.resetShape then { st with shape := none, overflow := st.overflow0 } else st

/-- `stop` after its last `refresh()` returned `r`: line feed, the `finally:` block, the transient erase. -/
def stopTail (cfg : Cfg) (r : Res) : Res :=
  match r.err with
  | some e => { st := cleanup r.st, out := r.out ++ [.showCursor], err := some e }
  | none =>
    { st := resetSt cfg (cleanup r.st),
      out := r.out ++ [.lf, .showCursor] ++ (if cfg.transient then restoreCursor (cleanup r.st).shape else []) }

/-- The state `stop` hands to its last refresh: `_started = False`, and for a Live
`vertical_overflow = "visible"`. -/
def stopSt (cfg : Cfg) (st : St) : St :=
  match cfg.kind with
  | .progress => { st with started := false }
  | _ => { st with started := false, overflow0 := st.overflow, overflow := .visible }

/-- `Live.stop` / `Progress.stop`. -/
def doStop (cfg : Cfg) (fails : Nat → Bool) (st : St) : Res :=
  if !st.started then { st := st }
  else stopTail cfg (doRefresh cfg fails (stopSt cfg st))

/-- `Live.start` / `Progress.start`. -/
def doStart (cfg : Cfg) (fails : Nat → Bool) (st : St) : Res :=
  if st.started then { st := st }
  else
    let st1 := { enableRedirect cfg st with started := true, hooks := st.hooks + 1 }
    match cfg.kind with
    | .progress =>
      let r := doRefresh cfg fails st1
      match r.err with
      | none => { st := r.st, out := .hideCursor :: r.out }
      | some e =>
        if cfg.startGuard then
          let r2 := doStop cfg fails r.st
          { st := r2.st, out := .hideCursor :: r.out ++ r2.out, err := some (r2.err.getD e) }
        else { st := r.st, out := .hideCursor :: r.out, err := some e }
    | _ => { st := st1, out := [.hideCursor] }

/-- `add_task` up to the refresh: the new task is stored under the current index. -/
def addTaskSt (st : St) (desc : Line) (visible : Bool) : St :=
  { st with tasks := replaceTask st.tasks { id := st.taskIndex, desc := desc, completed := 0, visible := visible } }

/-- `finally: self._task_index = TaskID(int(self._task_index) + 1)`. -/
def bumpIndex (st : St) : St := { st with taskIndex := st.taskIndex + 1 }

def step (cfg : Cfg) (fails : Nat → Bool) (st : St) : Op → Res
  | .start => doStart cfg fails st
  | .stop => doStop cfg fails st
  | .print ls => doPrint cfg fails st ls
  | .printBare =>
    if cfg.bareBypass then { st := st, out := [.lf] } else doPrint cfg fails st [[]]
  | .update f refresh =>
    match cfg.kind with
    | .live =>
      let st1 := { st with renderable := f }
      if refresh then doRefresh cfg fails st1 else { st := st1 }
    | .status => doRefresh cfg fails { st with renderable := statusFrame f }
    | .progress => { st := st }   -- not an operation of Progress (the driver answers `unmodelled`)
  | .refresh => doRefresh cfg fails st
  | .addTask desc visible =>
    let r := doRefresh cfg fails (addTaskSt st desc visible)
    match r.err with
    | some _ => r                                   -- raised before `_task_index` was advanced
    | none => { r with st := bumpIndex r.st }
  | .advance id n =>
    match findTask st.tasks id with
    | none => { st := st, err := some .keyError }
    | some t => { st := { st with tasks := replaceTask st.tasks { t with completed := t.completed + n } } }
  | .setVisible id v refresh =>
    match findTask st.tasks id with
    | none => { st := st, err := some .keyError }
    | some t =>
      let st1 := { st with tasks := replaceTask st.tasks { t with visible := v } }
      if refresh then doRefresh cfg fails st1 else { st := st1 }
  | .removeTask id =>
    match findTask st.tasks id with
    | none => { st := st, err := some .keyError }
    | some _ => { st := { st with tasks := st.tasks.filter (fun u => !(u.id == id)) } }

/-- Is `op` an operation of this kind of display? (Others are never sent by the harness.) -/
def Op.applies (k : Kind) : Op → Bool
  | .update _ _ => k != .progress
  | .addTask _ _ | .advance _ _ | .setVisible _ _ _ | .removeTask _ => k == .progress
  | _ => true

def initSt (ov : Overflow) (r : Frame) : St := { overflow := ov, overflow0 := ov, renderable := r }

/-- A history where the caller catches whatever an operation raises and goes on
(`try: op() except: pass`): final state, everything written, the errors in order. -/
def run (cfg : Cfg) (fails : Nat → Bool) : St → List Op → St × List TermOp × List (Option Err)
  | st, [] => (st, [], [])
  | st, op :: rest =>
    let r := step cfg fails st op
    let (st', out, errs) := run cfg fails r.st rest
    (st', r.out ++ out, r.err :: errs)

/-- `with display: body` — `__enter__` = start; the body stops at the first operation that raises, or
just before operation number `raiseAt` when the body itself raises there; `__exit__` = stop is called
iff `__enter__` returned.  Result: final state, everything written, whether an exception left the block. -/
def runBody (cfg : Cfg) (fails : Nat → Bool) : St → List Op → Option Nat → St × List TermOp × Bool
  | st, _, some 0 => (st, [], true)
  | st, [], _ => (st, [], false)
  | st, op :: rest, raiseAt =>
    let r := step cfg fails st op
    match r.err with
    | some _ => (r.st, r.out, true)
    | none =>
      let (st', out, raised) := runBody cfg fails r.st rest (raiseAt.map (· - 1))
      (st', r.out ++ out, raised)

def runWith (cfg : Cfg) (fails : Nat → Bool) (st : St) (body : List Op) (raiseAt : Option Nat) :
    St × List TermOp × Bool :=
  let r0 := doStart cfg fails st
  match r0.err with
  | some _ => (r0.st, r0.out, true)          -- `__enter__` raised: `__exit__` is never called
  | none =>
    let (st1, out1, raised1) := runBody cfg fails r0.st body raiseAt
    let r2 := doStop cfg fails st1
    (r2.st, r0.out ++ out1 ++ r2.out, raised1 || r2.err.isSome)

/-! ## specification-level view of a history (what the screen is supposed to show)

Independent of the shape book-keeping: the printed lines are the concatenation of what the user
printed, the frame is the one displayed by the last operation that refreshes the display. -/

def noFault : Nat → Bool := fun _ => false

/-- The frame on display right after a refreshing operation that ended in state `st`. -/
def shown (cfg : Cfg) (st : St) : Frame :=
  match cfg.kind with
  | .progress =>
    match st.shape with
    | none => []
    | some (w, h) => setShape (st.renderable.map (List.take cfg.width)) w h
  | _ => liveFrame cfg st.overflow st.renderable

/-- Operations that call `refresh()` / print through the console. -/
def Op.displays (k : Kind) : Op → Bool
  | .print _ | .printBare | .refresh | .addTask _ _ => true
  | .update _ r => r || k == .status
  | .setVisible _ _ r => r
  | _ => false

/-- Does `op`, executed in state `st`, redraw the live display?  (A refreshing operation while the hook
is installed; or `Progress.start`, which refreshes right after installing it.) -/
def redraws (cfg : Cfg) (st : St) (op : Op) : Bool :=
  (op.displays cfg.kind && st.hooks > 0) || (op == .start && cfg.kind == .progress && !st.started)

structure View where
  printed : List Line := []
  frame : Frame := []
deriving Repr, DecidableEq

/-- One non-`stop` operation (a bare print counts as printing one empty line, whatever the code does). -/
def viewStep (cfg : Cfg) (st : St) (v : View) (op : Op) : View :=
  { printed := match op with
      | .print ls => v.printed ++ ls
      | .printBare => v.printed ++ [[]]
      | _ => v.printed
    frame := if redraws cfg st op then shown cfg (step cfg noFault st op).st else v.frame }

/-- The frame the last refresh of `stop` puts on display (rendered `visible`). -/
def stopFrame (cfg : Cfg) (st : St) : Frame := shown cfg (doRefresh cfg noFault (stopSt cfg st)).st

/-- The final `stop`: last refresh (rendered `visible`), then nothing if transient. -/
def viewStop (cfg : Cfg) (st : St) (v : View) : View :=
  if st.started then
    { v with frame := if cfg.transient then [] else stopFrame cfg st }
  else v

/-- The specification-level run; `stop` ends it (well-formed histories have nothing after it). -/
def specRun (cfg : Cfg) : St → View → List Op → St × View
  | st, v, [] => (st, v)
  | st, v, op :: rest =>
    if op = .stop then ((doStop cfg noFault st).st, viewStop cfg st v)
    else specRun cfg (step cfg noFault st op).st (viewStep cfg st v op) rest

/-- Well-formed histories for the screen theorems (explicit and decidable):
every operation belongs to the display kind and raises nothing; `stop` occurs only as the last
operation; every frame put on display fits the screen (automatic for `crop` / `ellipsis`); and a
transient display leaves one row for the final line feed. -/
def wfOps (cfg : Cfg) : St → List Op → Bool
  | _, [] => true
  | st, op :: rest =>
    if op = .stop then
      rest.isEmpty && (doStop cfg noFault st).err.isNone &&
        (!st.started || !cfg.transient || (stopFrame cfg st).length + 1 ≤ cfg.height)
    else
      let r := step cfg noFault st op
      op.applies cfg.kind && r.err.isNone
        && (!redraws cfg st op || (shown cfg r.st).length ≤ cfg.height)
        && wfOps cfg r.st rest

def wf (cfg : Cfg) (ov : Overflow) (r0 : Frame) (h : List Op) : Bool :=
  1 ≤ cfg.height && wfOps cfg (initSt ov r0) h

def printed (cfg : Cfg) (ov : Overflow) (r0 : Frame) (h : List Op) : List Line :=
  (specRun cfg (initSt ov r0) {} h).2.printed

def lastFrame (cfg : Cfg) (ov : Overflow) (r0 : Frame) (h : List Op) : Frame :=
  (specRun cfg (initSt ov r0) {} h).2.frame

/-- Everything a history writes to the terminal. -/
def emit (cfg : Cfg) (ov : Overflow) (r0 : Frame) (h : List Op) : List TermOp :=
  (run cfg noFault (initSt ov r0) h).2.1

/-! ## any number of sessions on the same display object -/

/-- The rows a displayed frame occupies: an empty frame still has the (blank) row the cursor is on. -/
def region : Frame → Frame
  | [] => [[]]
  | l :: rest => l :: rest

/-- What a `stop` leaves as finished output: the whole last frame (at least the row of the line feed)
when not transient; nothing when transient — except the blank row an *empty* final frame still costs. -/
def leftBy (cfg : Cfg) (f : Frame) : List Line :=
  if cfg.transient then (if f.isEmpty then [[]] else []) else region f

/-- `stop` in the middle of a history: what the display leaves joins the finished output, nothing is on
display any more.  (`View.printed` is then: printed lines and frames left by stopped sessions, in order.) -/
def viewStopM (cfg : Cfg) (st : St) (v : View) : View :=
  if st.started then { printed := v.printed ++ leftBy cfg (stopFrame cfg st), frame := [] } else v

def viewStepM (cfg : Cfg) (st : St) (v : View) (op : Op) : View :=
  if op = .stop then viewStopM cfg st v else viewStep cfg st v op

def specRunM (cfg : Cfg) : St → View → List Op → St × View
  | st, v, [] => (st, v)
  | st, v, op :: rest => specRunM cfg (step cfg noFault st op).st (viewStepM cfg st v op) rest

/-- Well-formed histories with any number of sessions: as `wfOps`, but `stop` may occur anywhere. -/
def wfOpsM (cfg : Cfg) : St → List Op → Bool
  | _, [] => true
  | st, op :: rest =>
    let r := step cfg noFault st op
    (if op = .stop then
      r.err.isNone && (!st.started || !cfg.transient || (stopFrame cfg st).length + 1 ≤ cfg.height)
    else
      op.applies cfg.kind && r.err.isNone
        && (!redraws cfg st op || (shown cfg r.st).length ≤ cfg.height))
    && wfOpsM cfg r.st rest

def wfM (cfg : Cfg) (ov : Overflow) (r0 : Frame) (h : List Op) : Bool :=
  1 ≤ cfg.height && wfOpsM cfg (initSt ov r0) h

/-- Finished output of a multi-session history: printed lines and the frames left by stopped sessions. -/
def finished (cfg : Cfg) (ov : Overflow) (r0 : Frame) (h : List Op) : List Line :=
  (specRunM cfg (initSt ov r0) {} h).2.printed

/-- The frame of the session that is still running at the end of the history (`[]` if none). -/
def liveFrameOf (cfg : Cfg) (ov : Overflow) (r0 : Frame) (h : List Op) : Frame :=
  (specRunM cfg (initSt ov r0) {} h).2.frame

end RichModel.Live
