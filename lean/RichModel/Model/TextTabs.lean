import RichModel.Model.Text
/-!
Fix 7535af5 in /repo (found by C14, round 4): `Text.expand_tabs` falls back to a tab size of 8 when neither the call nor the
`Text` gives one; rich 9.10.0 as found asserted `tab_size is not None` there.  `Text.expandTabs` (Model/Text.lean) keeps the
as-found assertion branch; the drivers of C05 and C02 reach it through `effTab`, which says what the repaired code does with the
argument before the unchanged body runs.  `assertNone = true` is the code as found, `false` what /repo contains now.
(`Model/TotalityTitle.expandTabsV` of C14 is the same function with the flag in front; the theorems about the repaired
variant — totality for every `Text` — are C14's `title_expand_tabs_total` and `expand_tabs_repair_conservative`.)
-/
namespace RichModel
namespace Text
variable {σ : Type}

/-- the tab size `expand_tabs(tab_size)` works with, as an argument for `Text.expandTabs` -/
def effTab (assertNone : Bool) (t : Text σ) (tabSize : Option Nat) : Option Nat :=
  if assertNone then tabSize else some ((tabSize.orElse (fun _ => t.tabSize)).getD 8)

/-- the flag value in force: /repo contains fix 7535af5 -/
def tabAssertAsFound : Bool := false

end Text
end RichModel
