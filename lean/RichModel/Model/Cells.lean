/-
Model of rich/cells.py and rich/_lru_cache.py.
Import-free (core Lean only) so that the driver links natively.

Every definition mirrors the Python statement by statement; quirks are kept.
-/
namespace RichModel

/-- One row of `CELL_WIDTHS`: (start, end, width) with width in {-1,0,1,2}. -/
abbrev WidthRow := Nat × Nat × Int
abbrev WidthTable := Array WidthRow

/-- `return 0 if width == -1 else width` (cells.py:66), as a natural number. -/
def normWidth (w : Int) : Nat := if w == -1 then 0 else w.toNat

/-- The `while True` loop of `_get_codepoint_cell_size` (cells.py:57-71).
`lo` is `lower_bound`, `hiX` is `upper_bound + 1` (so no negative numbers are needed),
`fuel` bounds the iterations (shown sufficient in `Lemmas/Cells`). -/
def bsearchLoop (t : WidthTable) (cp : Nat) : Nat → Nat → Nat → Nat
  | 0, _, _ => 1
  | fuel+1, lo, hiX =>
    if lo < hiX then
      let idx := (lo + (hiX - 1)) / 2
      if h : idx < t.size then
        let row := t[idx]
        if cp < row.1 then bsearchLoop t cp fuel lo idx
        else if cp > row.2.1 then bsearchLoop t cp fuel (idx+1) hiX
        else normWidth row.2.2
      else 1
    else 1

/-- `_get_codepoint_cell_size` without the (transparent) `lru_cache`. -/
def codepointWidth (t : WidthTable) (cp : Nat) : Nat :=
  bsearchLoop t cp (t.size + 1) 0 t.size

/-- Reference semantics: first row (in table order) containing `cp`, else 1. -/
def linearScan (t : List WidthRow) (cp : Nat) : Nat :=
  match t with
  | [] => 1
  | row :: rest => if row.1 ≤ cp ∧ cp ≤ row.2.1 then normWidth row.2.2 else linearScan rest cp

/-- `get_character_cell_size` (cells.py:28-42): ASCII shortcut `127 > cp > 31`. -/
def charWidthT (t : WidthTable) (c : Char) : Nat :=
  let cp := c.toNat
  if 31 < cp ∧ cp < 127 then 1 else codepointWidth t cp

/-- `sum(_get_size(character) for character in text)` for an arbitrary width function. -/
def cellLen (cw : Char → Nat) (s : List Char) : Nat := (s.map cw).sum

/-! ### The LRU cache in front of `cell_len` (cells.py:8-25, _lru_cache.py) -/

structure Cache where
  cap : Nat
  items : List (List Char × Nat)   -- oldest first (OrderedDict order)
deriving Repr

def Cache.get (c : Cache) (k : List Char) : Option Nat :=
  (c.items.find? (fun p => p.1 == k)).map (·.2)

/-- `LRUCache.__setitem__`: evict the oldest when a *new* key arrives at capacity;
an existing key keeps its position (OrderedDict semantics). -/
def Cache.set (c : Cache) (k : List Char) (v : Nat) : Cache :=
  if c.items.any (fun p => p.1 == k) then
    { c with items := c.items.map (fun p => if p.1 == k then (k, v) else p) }
  else if c.items.length ≥ c.cap then
    { c with items := c.items.tail ++ [(k, v)] }   -- popitem(last=False) then insert
  else
    { c with items := c.items ++ [(k, v)] }

/-- `cell_len(text, _cache)`: `_cache.get` (which does not refresh recency: `OrderedDict.get`
bypasses the overridden `__getitem__`), compute, store when `len(text) <= 64`. -/
def cellLenC (cw : Char → Nat) (c : Cache) (s : List Char) : Nat × Cache :=
  match c.get s with
  | some v => (v, c)
  | none =>
    let total := cellLen cw s
    if s.length ≤ 64 then (total, c.set s total) else (total, c)

/-- Run a history of measurements through the cache, returning the results. -/
def cellLenHistory (cw : Char → Nat) : Cache → List (List Char) → List Nat
  | _, [] => []
  | c, s :: rest => let (r, c') := cellLenC cw c s; r :: cellLenHistory cw c' rest

/-! ### `set_cell_size` (cells.py:74-91) -/

/-- `while excess > 0 and character_sizes: excess -= pop()` on the *reversed* size list. -/
def popLoop : List Nat → Int → List Nat × Int
  | [], e => ([], e)
  | sz :: rest, e => if e > 0 then popLoop rest (e - sz) else (sz :: rest, e)

def setCellSize (cw : Char → Nat) (text : List Char) (total : Nat) : List Char :=
  let cellSize := cellLen cw text
  if cellSize == total then text
  else if cellSize < total then text ++ List.replicate (total - cellSize) ' '
  else
    let sizes := text.map cw
    let (remaining, excess) := popLoop sizes.reverse ((cellSize : Int) - (total : Int))
    let text' := text.take remaining.length
    if excess == -1 then text' ++ [' '] else text'

/-! ### `chop_cells` (cells.py:94-114) -/

/-- The loop of `chop_cells`; `cur` is the line being built (reversed), `acc` the finished lines
(reversed), `total` is `total_size`. -/
def chopLoop (cw : Char → Nat) (maxSize : Nat) : List Char → Nat → List Char → List (List Char) → List (List Char)
  | [], _, cur, acc => (cur.reverse :: acc).reverse
  | c :: rest, total, cur, acc =>
    if total + cw c > maxSize then chopLoop cw maxSize rest (cw c) [c] (cur.reverse :: acc)
    else chopLoop cw maxSize rest (total + cw c) (c :: cur) acc

def chopCells (cw : Char → Nat) (text : List Char) (maxSize : Nat) (position : Nat := 0) : List (List Char) :=
  chopLoop cw maxSize text position [] []

end RichModel
