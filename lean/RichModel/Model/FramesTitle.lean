import RichModel.Model.Wrap
import RichModel.Model.FramesStyled
/-
Panel titles and Rule texts as real `Text` objects (property C08, deepening round): spans, tabs, any
whitespace, titles wider than the console, `options.justify` — everything the one-line "simple" domain of
`Model/Frames.lean` answered `unmodelled` for.  Nothing is re-modelled: the texts are values of C05's
`Text σ` (`Model/Text.lean`), wrapped by C02's `Wrap.wrap` (`Model/Wrap.lean`) and rendered by `Text.render`;
this file only writes down what `Panel._title`, `Panel.__rich_console__`, `Rule.__rich_console__` and
`Text.__rich_console__` do with them.  `σ` is the type of resolved styles (`console.get_style(name)`).
-/
namespace RichModel.Frames
open RichModel

variable {σ : Type}

/-- The part of `ConsoleOptions` a text finally reads (console.py:100-106). -/
structure TOpts where
  justify : Option Justify := none
  overflow : Option RichModel.Overflow := none
  noWrap : Option Bool := some false
deriving Repr, BEq, DecidableEq

/-- what the Text / Wrap models need besides the style algebra -/
structure TCfg (σ : Type) where
  cw : Char → Nat
  A : SOps σ
  wv : Wrap.WVariant
  /-- `console.tab_size` -/
  tabSize : Nat := 8

/-- `Style.combine` / `get_style_at_offset` over resolved styles: the sum from the left (the null style for `()`),
and `Style.__eq__` -/
def TCfg.alg [BEq σ] (cfg : TCfg σ) : Wrap.StyleAlg σ :=
  { null := cfg.A.null,
    comb := fun l => match l with | [] => cfg.A.null | x :: xs => xs.foldl cfg.A.add x,
    eqv := fun a b => a == b }

/-- `console.tab_size or self.tab_size or 8`, then `tab_size or 8` (text.py:507, 520) -/
def effTabSizeG (cfg : TCfg σ) (t : Text σ) : Nat :=
  let a := if cfg.tabSize != 0 then cfg.tabSize else (match t.tabSize with | some n => if n != 0 then n else 8 | none => 8)
  if a != 0 then a else 8

/-- `Text.__rich_console__` (text.py:504-524) at `options.max_width = w ≥ 1`: wrap, `Text("\n").join(lines)`,
`render(end=self.end)`; a rendered segment's style is `Style.combine` of the names in force. -/
def textConsoleG [BEq σ] (cfg : TCfg σ) (t : Text σ) (o : TOpts) (w : Nat) : Except RichModel.PyErr (List (Segment σ)) :=
  let justify : Justify := (t.justify.orElse (fun _ => o.justify)).getD Justify.default
  let overflow : RichModel.Overflow := (t.overflow.orElse (fun _ => o.overflow)).getD RichModel.Overflow.fold
  let noWrap : Bool := (t.noWrap.orElse (fun _ => o.noWrap)).getD false
  Wrap.wrap cfg.wv cfg.cw cfg.alg t w (some justify) (some overflow) (some (effTabSizeG cfg t)) (some noWrap) >>= fun lines =>
  let joined := Text.join cfg.wv.text (Text.new cfg.wv.text ['\n'] cfg.A.null) lines
  joined.render t.endStr >>= fun segs =>
  .ok (segs.map (fun r => ({ text := r.text, style := r.styles.map cfg.alg.comb, control := false } : Segment σ)))

/-- `str.splitlines()` boundaries that survive `strip_control_codes` -/
def isLineBreakG (c : Char) : Bool :=
  let n := c.toNat
  n == 10 || n == 11 || n == 12 || n == 13 || n == 28 || n == 29 || n == 30 || n == 0x85 || n == 0x2028 || n == 0x2029

def splitOnG (p : Char → Bool) : List Char → List Char → List (List Char)
  | [], cur => [cur.reverse]
  | c :: rest, cur => if p c then cur.reverse :: splitOnG p rest [] else splitOnG p rest (c :: cur)

/-- `Text.__rich_measure__` (text.py:526-532) followed by `Measurement.get` -/
def textMeasureG (cw : Char → Nat) (t : Text σ) (w : Int) : Measurement :=
  let mx (ps : List (List Char)) : Int := ps.foldl (fun m x => max m (cellLen cw x : Int)) 0
  let m : Measurement :=
    if t.plain.all pyIsSpace then ⟨cellLen cw t.plain, cellLen cw t.plain⟩
    else ⟨mx (splitOnG pyIsSpace t.plain []), mx (splitOnG isLineBreakG t.plain [])⟩
  Measurement.getPost w (some m)

/-! ## Panel title -/

def toAlignMethod : AlignM → AlignMethod
  | .left => .left | .center => .center | .right => .right

/-- `Panel._title` (panel.py:94-108) on the `Text` it starts from (`Text.from_markup(title)` for a `str`,
`title.copy()` for a `Text`); `truthy` = `bool(self.title)`. -/
def panelTitleText [BEq σ] (v : RichModel.Variant) (truthy : Bool) (t : Text σ) : Except RichModel.PyErr (Option (Text σ)) :=
  if !truthy then .ok none
  else
    let t1 : Text σ := { t with endStr := [] }
    let t2 := t1.setPlain (t1.plain.map (fun c => if c == '\n' then ' ' else c))
    let t3 : Text σ := { t2 with noWrap := some true }
    t3.expandTabs v none >>= fun (t4 : Text σ) => .ok (some (t4.pad 1))

/-- the title oracle of a `Text` title: `render st n ch rw` sets `title_text.style = st`, aligns to `n` cells with
`ch` and renders with the console's own options (`justify = None`, `overflow = None`, `no_wrap = False`) at
width `rw`.  A raising `Text.render` (inconsistent spans) is outside the modelled domain (`none`). -/
def textTitleO [BEq σ] (cfg : TCfg σ) (a : AlignM) (title : Text σ) : TitleO σ :=
  { cells := cellLen cfg.cw title.plain,
    render := fun st n ch rw =>
      let t1 : Text σ := { title with style := st }
      let t2 := t1.align cfg.wv.text cfg.cw (toAlignMethod a) n ch
      if rw < 1 then some []
      else match textConsoleG cfg t2 {} rw.toNat with
        | .ok segs => some segs
        | .error _ => none }

/-! ## Rule (rule.py:48-103) on `Text` values -/

structure RuleOptsT (σ : Type) where
  /-- the title as a `Text` (`console.render_str(title, style="rule.text")` for a `str`); `none` = falsy title -/
  title : Option (Text σ) := none
  characters : List Char := ['─']
  endS : List Char := ['\n']
  align : AlignM := .center
  /-- `console.get_style(self.style)` -/
  style : σ

/-- `Text(s)` / `Text(s, style)` as `rule.py` builds them: base style `""` (the null style), the given style as the base -/
def mkText (cfg : TCfg σ) (s : List Char) (st : σ) (endS : List Char := ['\n']) : Text σ :=
  Text.new cfg.wv.text s st [] none none none endS

/-- the `Text` a rule yields -/
def ruleTextT [BEq σ] (cfg : TCfg σ) (env : Env) (sv : SVariant) (o : RuleOptsT σ) (w : Int) : Except RichModel.PyErr (Text σ) :=
  let isascii := o.characters.all (fun c => c.toNat < 128)
  let characters := if env.asciiOnly && !isascii then ['-'] else o.characters
  let charsLen : Int := cellLen cfg.cw characters
  match o.title with
  | none =>
    let t := mkText cfg (repStr (w / charsLen + 1) characters) o.style (if sv.ruleNoTitleEnd then ['\n'] else o.endS)
    let t := t.truncate cfg.cw w
    .ok (t.setPlain (setCellSizeI cfg.cw t.plain w))
  | some title0 =>
    let title1 := title0.setPlain (title0.plain.map (fun c => if c == '\n' then ' ' else c))
    title1.expandTabs cfg.wv.text none >>= fun (title : Text σ) =>
    let rule0 : Text σ := mkText cfg [] cfg.A.null o.endS
    let rule : Text σ :=
      match o.align with
      | .center =>
        let title := title.truncate cfg.cw (w - 4) (some RichModel.Overflow.ellipsis)
        let sideWidth : Int := (w - cellLen cfg.cw title.plain) / 2
        let left := (mkText cfg (repStr (sideWidth / charsLen + 1) characters) cfg.A.null).truncate cfg.cw (sideWidth - 1)
        let rightLength : Int := w - cellLen cfg.cw left.plain - cellLen cfg.cw title.plain
        let right := (mkText cfg (repStr (sideWidth / charsLen + 1) characters) cfg.A.null).truncate cfg.cw rightLength
        ((rule0.appendStr (left.plain ++ [' ']) (some o.style)).appendT title).appendStr ([' '] ++ right.plain) (some o.style)
      | .left =>
        let title := title.truncate cfg.cw (w - 2) (some RichModel.Overflow.ellipsis)
        let r1 := (rule0.appendT title).appendStr [' ']
        r1.appendStr (repStr (w - cellLen cfg.cw r1.plain) characters) (some o.style)
      | .right =>
        let title := title.truncate cfg.cw (w - 2) (some RichModel.Overflow.ellipsis)
        let sideWidth : Int := w - cellLen cfg.cw title.plain - 1
        let side :=
          if sv.base.ruleRightRepeat then repStr sideWidth characters
          else setCellSizeI cfg.cw (repStr (sideWidth / charsLen + 1) characters) sideWidth
        ((rule0.appendStr side (some o.style)).appendStr [' ']).appendT title
    .ok (rule.setPlain (setCellSizeI cfg.cw rule.plain w))

/-- `Rule.__rich_console__` followed by the rendering of the yielded `Text` with the options in force -/
def ruleConsoleT [BEq σ] (cfg : TCfg σ) (env : Env) (sv : SVariant) (o : RuleOptsT σ) (opts : TOpts) (w : Int) :
    Except RichModel.PyErr (List (Segment σ)) :=
  if w < 1 then .ok []
  else ruleTextT cfg env sv o w >>= fun t => textConsoleG cfg t opts w.toNat

end RichModel.Frames
