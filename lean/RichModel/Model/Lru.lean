/-
Model of rich/_lru_cache.py `LRUCache` (an `OrderedDict` subclass) as a state machine over its whole API:
the two overridden methods `__setitem__` / `__getitem__` and the inherited read-only ones that rich uses
(`get` — which is `OrderedDict.get`/`dict.get`, implemented in C, and does NOT go through the overridden
`__getitem__`, so it does not refresh recency —, `__contains__`, `__len__`).  Import-free.

Statement by statement:

    def __setitem__(self, key, value):
        if key not in self:
            if len(self) >= self.cache_size:
                self.popitem(last=False)          # KeyError('dictionary is empty') when the dict is empty
        OrderedDict.__setitem__(self, key, value)  # existing key: value replaced, position kept

    def __getitem__(self, key):
        value = OrderedDict.__getitem__(self, key) # KeyError when missing
        OrderedDict.__delitem__(self, key)
        OrderedDict.__setitem__(self, key, value)  # re-inserted at the end
        return value

`cache_size` is a `Nat` here: for `cache_size <= 0` the test `len(self) >= cache_size` is always true, exactly as for 0.
-/
namespace RichModel

structure Lru (K V : Type) where
  cap : Nat
  items : List (K × V)   -- oldest first (OrderedDict order)
deriving Repr

inductive LruOp (K V : Type) where
  | setitem (k : K) (v : V)
  | getitem (k : K)
  | get (k : K)
  | contains (k : K)
  | len
deriving Repr

inductive LruOut (V : Type) where
  | unit               -- `None` returned by `__setitem__`, or `get` on a missing key
  | val (v : V)
  | keyError
  | bool (b : Bool)
  | nat (n : Nat)
deriving Repr, DecidableEq

variable {K V : Type} [DecidableEq K]

/-- `OrderedDict.get(key)` / membership: first (and, keys being distinct, only) entry with that key. -/
def lookupL (l : List (K × V)) (k : K) : Option V := (l.find? (fun p => p.1 == k)).map (·.2)

def hasKey (l : List (K × V)) (k : K) : Bool := l.any (fun p => p.1 == k)

/-- `OrderedDict.__setitem__` on an existing key: the value is replaced in place. -/
def replaceL (l : List (K × V)) (k : K) (v : V) : List (K × V) :=
  l.map (fun p => if p.1 == k then (p.1, v) else p)

/-- `OrderedDict.__delitem__`. -/
def eraseL (l : List (K × V)) (k : K) : List (K × V) := l.filter (fun p => !(p.1 == k))

def Lru.step (c : Lru K V) : LruOp K V → LruOut V × Lru K V
  | .setitem k v =>
    if hasKey c.items k then (.unit, { c with items := replaceL c.items k v })
    else if c.items.length ≥ c.cap then
      match c.items with
      | [] => (.keyError, c)                                   -- popitem() on an empty dict; nothing is stored
      | _ :: tl => (.unit, { c with items := tl ++ [(k, v)] })   -- popitem(last=False), then insert at the end
    else (.unit, { c with items := c.items ++ [(k, v)] })
  | .getitem k =>
    match lookupL c.items k with
    | none => (.keyError, c)
    | some v => (.val v, { c with items := eraseL c.items k ++ [(k, v)] })
  | .get k =>
    match lookupL c.items k with
    | none => (.unit, c)
    | some v => (.val v, c)
  | .contains k => (.bool (hasKey c.items k), c)
  | .len => (.nat c.items.length, c)

/-- Run a history of operations; the outputs in order and the final state. -/
def Lru.run (c : Lru K V) : List (LruOp K V) → List (LruOut V) × Lru K V
  | [] => ([], c)
  | op :: rest =>
    let r := c.step op
    let rr := Lru.run r.2 rest
    (r.1 :: rr.1, rr.2)

/-! ### The specification side: a plain ordered map that never evicts (used by `Lemmas/Lru.lean`; executable, so the
harness can also run it against the real class) -/

/-- The `cap` most recent entries. -/
def viewL (cap : Nat) (A : List (K × V)) : List (K × V) := A.drop (A.length - cap)

/-- The abstract machine: nothing is ever dropped from `A`; every observation is made through `viewL cap`. -/
def amStep (cap : Nat) (A : List (K × V)) : LruOp K V → LruOut V × List (K × V)
  | .setitem k v =>
    if hasKey (viewL cap A) k then (.unit, replaceL A k v)
    else (.unit, eraseL A k ++ [(k, v)])
  | .getitem k =>
    match lookupL (viewL cap A) k with
    | none => (.keyError, A)
    | some v => (.val v, eraseL A k ++ [(k, v)])
  | .get k =>
    match lookupL (viewL cap A) k with
    | none => (.unit, A)
    | some v => (.val v, A)
  | .contains k => (.bool (hasKey (viewL cap A) k), A)
  | .len => (.nat (viewL cap A).length, A)

def amRun (cap : Nat) (A : List (K × V)) : List (LruOp K V) → List (LruOut V) × List (K × V)
  | [] => ([], A)
  | op :: rest =>
    let r := amStep cap A op
    let rr := amRun cap r.2 rest
    (r.1 :: rr.1, rr.2)

/-- The plain finite map a history denotes: only `__setitem__` changes it, by `Function.update`. -/
def plainRun (m : K → Option V) : List (LruOp K V) → K → Option V
  | [] => m
  | .setitem k v :: rest => plainRun (fun k' => if k' = k then some v else m k') rest
  | _ :: rest => plainRun m rest

end RichModel
