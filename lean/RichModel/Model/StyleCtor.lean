import RichModel.Model.Style
/-
The remaining public ways to make a `Color` / a `Style` (rich/color.py:338-387, rich/style.py:337-343,
378-386, 534-558), statement by statement.  Import-free apart from `RichModel.Model.*`.

* `Color.from_ansi(number)`, `Color.from_triplet(triplet)`, `Color.from_rgb(red, green, blue)`,
  `Color.default()`, with `ColorTriplet.hex` (`f"#{red:02x}{green:02x}{blue:02x}"`);
* `Style.background_style`, `Style.transparent_background`, `Style.pick_first`, `Style.combine`
  (= `Style.chain` on the list of the iterable's items), `sum(styles, start)`.

None of the colour constructors validates its arguments: `Color.from_ansi(256)` is an eight-bit colour
number 256 named `color(256)` (which `Color.parse` rejects), `Color.from_rgb(300, 0, 0)` is named
`#12c0000`.  The model does the same.  Negative / non-integral numbers: `from_rgb` takes floats and
truncates with `int()`; the model takes the components as non-negative rationals `q / 4` (what the
harness sends) and floors them.  Negative components are outside the modelled domain.
-/
namespace RichModel
open AsciiStr

namespace Color

/-- `Color.from_ansi(number)` (color.py:338-352): the boundary `number < 16` is the same as the two in
`Color.parse` — that is what makes `Style(color=Color.from_ansi(n)) == Style.parse(f"color({n})")`. -/
def fromAnsi (number : Nat) : Color :=
  { name := cl! "color(" ++ Nat.toDigits 10 number ++ cl! ")",
    type := if number < 16 then .standard else .eightBit, number := some number }

/-- `f"{c:02x}"`: lower-case hexadecimal, zero padded to two digits (more digits from 256 on). -/
def hexByte (c : Nat) : List Char :=
  if c < 256 then [Nat.digitChar (c / 16), Nat.digitChar (c % 16)] else Nat.toDigits 16 c

/-- `ColorTriplet.hex` (color_triplet.py:14-18). -/
def tripletHex (t : Triplet) : List Char := '#' :: (hexByte t.red ++ hexByte t.green ++ hexByte t.blue)

/-- `ColorTriplet.rgb` (color_triplet.py:20-28). -/
def tripletRgb (t : Triplet) : List Char :=
  cl! "rgb(" ++ (Nat.toDigits 10 t.red ++ ',' :: (Nat.toDigits 10 t.green ++ ',' :: Nat.toDigits 10 t.blue)) ++ [')']

/-- `Color.from_triplet(triplet)` (color.py:354-364). -/
def fromTriplet (t : Triplet) : Color := { name := tripletHex t, type := .truecolor, triplet := some t }

/-- `Color.from_rgb(red, green, blue)` (color.py:366-378) with `red = r4 / 4` …: `int()` truncates. -/
def fromRgbQuarters (r4 g4 b4 : Nat) : Color := fromTriplet ⟨r4 / 4, g4 / 4, b4 / 4⟩

/-- `Color.default()` (color.py:380-387). -/
def mkDefault : Color := { name := cl! "default", type := .default }

end Color

namespace Style

/-- `Style.background_style` (style.py:383-386): `Style(bgcolor=self.bgcolor)`, through `__init__`. -/
def backgroundStyleT (T : StrTables) (v : StyleVariant) (s : Style) : Except StyleErr Style :=
  initT T v none (s.bgcolor.map .color) [] none

/-- `Style.transparent_background` (style.py:378-381). -/
def transparentBackground (s : Style) : Bool :=
  match s.bgcolor with
  | none => true
  | some c => c.type == .default

/-- `Style.pick_first(*values)` (style.py:337-343) on values that are styles or `None` (a `str` value is
returned as it is — not a way to make a `Style`): the first non-`None`, `ValueError` if there is none. -/
def pickFirst : List (Option Style) → Except StyleErr Style
  | [] => .error .valueError
  | some s :: _ => .ok s
  | none :: r => pickFirst r

/-- `Style.combine(styles)` (style.py:534-545): the same two statements as `chain`, on `iter(styles)`. -/
def combine (v : StyleVariant) (styles : List Style) : Except StyleErr Style := chain v styles

/-- `sum(styles, start)` for a `Style` start: `start + s1 + s2 + …` (what `chain`/`combine` call; there is
no `Style.__radd__`, so `sum(styles)` with the default start `0` raises `TypeError` on the first item). -/
def sumFrom (v : StyleVariant) (start : Style) (styles : List Style) : Style := styles.foldl (add v) start

end Style
end RichModel
