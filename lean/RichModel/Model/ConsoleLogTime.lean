/-
The time column of `Console.log` (property C15, deepening round 4): `LogRender.__call__`, _log_render.py:52-58

    log_time = log_time or console.get_datetime()
    log_time_display = log_time.strftime(time_format or self.time_format)
    if log_time_display == self._last_time:
        row.append(Text(" " * len(log_time_display)))
    else:
        row.append(Text(log_time_display))
        self._last_time = log_time_display

`_last_time` is state of the console's `LogRender` object: it survives captures, `with console:` blocks and exports.
The `strftime` display of each call is an input.  Import-free.
-/
namespace RichModel.ConsoleLogTime

/-- `LogRender._last_time`. -/
structure LogState where
  lastTime : Option (List Char) := none
deriving Repr, DecidableEq

/-- One `LogRender.__call__`: the text of the time cell (`none`: `show_time` is off, there is no time column) and
the state afterwards. -/
def logTimeCell (showTime : Bool) (st : LogState) (display : List Char) : Option (List Char) × LogState :=
  if !showTime then (none, st)
  else if st.lastTime = some display then (some (List.replicate display.length ' '), st)
  else (some display, { lastTime := some display })

/-- The time cells of consecutive `log` calls. -/
def logTimeCells (showTime : Bool) : LogState → List (List Char) → List (Option (List Char))
  | _, [] => []
  | st, d :: r =>
    let c := logTimeCell showTime st d
    c.1 :: logTimeCells showTime c.2 r

end RichModel.ConsoleLogTime
