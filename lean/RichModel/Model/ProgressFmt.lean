import RichModel.Model.Progress
/-
Model of what the progress columns compute from a task (rich/progress.py:273-414), of
rich/filesize.py (`_to_str`, `pick_unit_and_suffix`, `decimal`) and of the arithmetic of
`ProgressBar.__rich_console__` (progress_bar.py:147-190).

Floats.  These functions divide (`completed / unit`, `base * size / unit`, `completed / total * 100.0`,
`width * 2 * completed / total`) and hand the *double* to `format(…, ',.1f')`, `int()` or `min/max`.
Python's `int / int` and IEEE `float / float`, `float * float` are correctly rounded, and `format`
rounds the exact binary value half-to-even, so the model is exact: `rn53 n d` is the double nearest to
the rational `n / d` (round-half-even on the 53-bit significand; no overflow / subnormals: callers stay
below 2^1000 and above 2^-1000), `fixedStr` is `format(x, ',.<p>f')` of a double given as an exact
fraction.  Nothing here is compared "up to a tolerance".
-/
namespace RichModel.ProgressFmt
open RichModel.Progress

/-! ## numbers to text -/

def digitChar (d : Nat) : Char := Char.ofNat (48 + d % 10)

/-- decimal digits of a natural number, most significant first (`"0"` for 0); `fuel` ≥ number of digits -/
def natDigitsAux : Nat → Nat → List Char → List Char
  | 0, _, acc => acc
  | fuel + 1, n, acc => if n < 10 then digitChar n :: acc else natDigitsAux fuel (n / 10) (digitChar (n % 10) :: acc)

def natStr (n : Nat) : List Char := natDigitsAux (n + 1) n []

/-- insert `,` every three digits from the right (`format(n, ',')`) -/
def groupRev : List Char → List Char
  | a :: b :: c :: d :: r => a :: b :: c :: ',' :: groupRev (d :: r)
  | l => l

def commaNat (n : Nat) : List Char := (groupRev (natStr n).reverse).reverse

/-- `"{:,}".format(i)` -/
def commaInt (i : Int) : List Char := if i < 0 then '-' :: commaNat i.natAbs else commaNat i.natAbs

def pad2 (n : Nat) : List Char := if n < 10 then '0' :: natStr n else natStr n

def padLeft (w : Nat) (s : List Char) : List Char := List.replicate (w - s.length) ' ' ++ s

/-! ## the nearest double of a positive rational -/

/-- round-half-even of `n / d` to a natural number (`d > 0`) -/
def rhe (n d : Nat) : Nat :=
  let q := n / d
  let r := n % d
  if 2 * r < d then q else if d < 2 * r then q + 1 else if q % 2 = 0 then q else q + 1

/-- The double nearest to `n / d` (`n, d > 0`), as an exact fraction `(num, den)`, `den` a power of two.
`s` is chosen so that `2^52 ≤ ⌊n·2^s / d⌋ < 2^53`; the significand is then rounded half-to-even. -/
def rn53 (n d : Nat) : Nat × Nat :=
  if n = 0 ∨ d = 0 then (0, 1)
  else
    let e : Int := (Nat.log2 n : Int) - (Nat.log2 d : Int)
    let s0 : Int := 52 - e
    -- n/d lies in (2^(e-1), 2^(e+1)): with shift s0 the quotient has 52 or 53 or 54 bits
    let q0 := if 0 ≤ s0 then (n * 2 ^ s0.toNat) / d else n / (d * 2 ^ (-s0).toNat)
    let s : Int := if q0 < 2 ^ 52 then s0 + 1 else if 2 ^ 53 ≤ q0 then s0 - 1 else s0
    if 0 ≤ s then (rhe (n * 2 ^ s.toNat) d, 2 ^ s.toNat)
    else (rhe n (d * 2 ^ (-s).toNat) * 2 ^ (-s).toNat, 1)

/-- `format(x, ',.<p>f')` for the double `x = ± num/den` (`neg`: the sign bit), `p` digits after the point -/
def fixedStr (p : Nat) (neg : Bool) (num den : Nat) : List Char :=
  let scaled := rhe (num * 10 ^ p) den
  let ip := commaNat (scaled / 10 ^ p)
  let body := if p = 0 then ip else ip ++ '.' :: (List.replicate (p - (natStr (scaled % 10 ^ p)).length) '0' ++ natStr (scaled % 10 ^ p))
  if neg then '-' :: body else body

/-- `format(a / b, ',.<p>f')` for Python ints `a`, `b ≠ 0` (`0 / -5` is `-0.0` and prints its sign) -/
def divFixed (p : Nat) (a b : Int) : List Char :=
  let x := rn53 a.natAbs b.natAbs
  fixedStr p ((a < 0) != (b < 0)) x.1 x.2

/-- `int(a / b)` for Python ints / exact floats `a`, `b ≠ 0`: the correctly rounded double, truncated toward zero -/
def truncDiv (a b : Int) : Int :=
  let x := rn53 a.natAbs b.natAbs
  let m : Int := ((x.1 / x.2 : Nat) : Int)
  if (a < 0) != (b < 0) then -m else m

/-! ## rich/filesize.py -/

/-- `pick_unit_and_suffix` loop from suffix index `i` (`unit = base ** i`), `rem` suffixes after it.
The loop variables keep their last values when the loop runs out. -/
def pickFrom (size base : Int) : Nat → Nat → Int → Int × Nat
  | 0, i, unit => (unit, i)
  | rem + 1, i, unit => if size < unit * base then (unit, i) else pickFrom size base rem (i + 1) (unit * base)

/-- `pick_unit_and_suffix(size, suffixes, base)` with `n = len(suffixes)`: `(unit, index of the suffix)`;
`none` = `UnboundLocalError` for an empty suffix list. -/
def pickUnit (size : Int) (n : Nat) (base : Int) : Option (Int × Nat) :=
  match n with
  | 0 => none
  | n + 1 => some (pickFrom size base n 0 1)

/-- the `for i, suffix in enumerate(suffixes, 2)` loop of `_to_str` from suffix index `j`
(`unit = base ** (j + 2)`) -/
def toStrFrom (size base : Int) : Nat → Nat → Int → Int × Nat
  | 0, j, unit => (unit, j)
  | rem + 1, j, unit => if size < unit then (unit, j) else toStrFrom size base rem (j + 1) (unit * base)

inductive SizeStr
  | oneByte
  | bytes (size : Int)
  /-- `"{:,.1f} {}".format(base * size / unit, suffixes[j])` -/
  | scaled (num unit : Int) (j : Nat)
  /-- empty suffix list and `size >= base`: `UnboundLocalError` -/
  | unbound
deriving DecidableEq, Repr

/-- `_to_str(size, suffixes, base)`, `n = len(suffixes)` -/
def toStrSel (size : Int) (n : Nat) (base : Int) : SizeStr :=
  if size = 1 then .oneByte
  else if size < base then .bytes size
  else match n with
    | 0 => .unbound
    | n + 1 =>
      let r := toStrFrom size base n 0 (base * base)
      .scaled (base * size) r.1 r.2

def decimalSuffixes : List (List Char) :=
  ["kB".toList, "MB".toList, "GB".toList, "TB".toList, "PB".toList, "EB".toList, "ZB".toList, "YB".toList]

def renderSizeStr (suffixes : List (List Char)) : SizeStr → Option (List Char)
  | .oneByte => some "1 byte".toList
  | .bytes s => some (commaInt s ++ " bytes".toList)
  | .scaled num unit j => some (divFixed 1 num unit ++ ' ' :: suffixes.getD j [])
  | .unbound => none

/-- `filesize.decimal(size)` -/
def decimal (size : Int) : List Char :=
  (renderSizeStr decimalSuffixes (toStrSel size 8 1000)).getD []

def downloadSuffixes (binary : Bool) : List (List Char) :=
  if binary then ["bytes".toList, "KiB".toList, "MiB".toList, "GiB".toList, "TiB".toList, "PiB".toList, "EiB".toList, "ZiB".toList, "YiB".toList]
  else ["bytes".toList, "KB".toList, "MB".toList, "GB".toList, "TB".toList, "PB".toList, "EB".toList, "ZB".toList, "YB".toList]

/-- `DownloadColumn.render` text for whole-number `completed`, `total` -/
def downloadText (binary : Bool) (completed total : Int) : List Char :=
  let base : Int := if binary then 1024 else 1000
  let r := pickFrom total base 8 0 1
  let p := if r.1 = 1 then 0 else 1
  divFixed p completed r.1 ++ '/' :: divFixed p total r.1 ++ ' ' :: (downloadSuffixes binary).getD r.2 []

/-! ## columns -/

inductive FmtErr
  | overflow
deriving DecidableEq, Repr

/-- `str(timedelta(seconds=n))` for an `int` `n`; `OverflowError` when `|days| > 999999999` -/
def tdFields (n : Int) : Int × Int × Int × Int :=
  let days := n / 86400
  let secs := n % 86400
  (days, secs / 3600, secs / 60 % 60, secs % 60)

def tdStr (n : Int) : Except FmtErr (List Char) :=
  let f := tdFields n
  if 999999999 < f.1.natAbs then .error .overflow
  else
    let hms := natStr f.2.1.toNat ++ ':' :: pad2 f.2.2.1.toNat ++ ':' :: pad2 f.2.2.2.toNat
    if f.1 = 0 then .ok hms
    else .ok ((if f.1 < 0 then '-' :: natStr f.1.natAbs else natStr f.1.natAbs) ++
              (if f.1.natAbs = 1 then [' ', 'd', 'a', 'y', ',', ' '] else [' ', 'd', 'a', 'y', 's', ',', ' ']) ++ hms)

/-- `"-:--:--"` -/
def dashes : List Char := ['-', ':', '-', '-', ':', '-', '-']

/-- `TimeRemainingColumn.render(task)` text -/
def timeRemainingText (cfg : Cfg) (t : Task) : Except FmtErr (List Char) :=
  match t.timeRemaining cfg with
  | none => .ok dashes
  | some r => tdStr r

/-- `TimeElapsedColumn.render(task)` text, given `e = finished_time if finished else elapsed` in ticks
(`int()` truncates toward zero) -/
def timeElapsedText (cfg : Cfg) (e : Option Int) : Except FmtErr (List Char) :=
  match e with
  | none => .ok dashes
  | some v => tdStr (Int.tdiv v cfg.tps)

/-- `"{task.percentage:>3.0f}"`: the *double* `min(100.0, max(0.0, completed / total * 100.0))`
(two roundings: the quotient, then the product), formatted with no decimals, right-aligned in 3. -/
def pctText (t : Task) : List Char :=
  if t.total = 0 then padLeft 3 (natStr 0)
  else if (t.completed < 0) != (t.total < 0) then padLeft 3 (natStr 0)
  else
    let x1 := rn53 t.completed.natAbs t.total.natAbs
    let x2 := rn53 (x1.1 * 100) x1.2
    if 100 * x2.2 < x2.1 then padLeft 3 (natStr 100)
    else padLeft 3 (fixedStr 0 false x2.1 x2.2)

/-- the arguments `BarColumn.render` hands to `ProgressBar`: `(total, completed, pulse)` -/
def barArgs (t : Task) : Int × Int × Bool :=
  (max 0 t.total, max 0 t.completed, !t.started)

/-- `complete_halves` of `ProgressBar.__rich_console__` for a bar of `width` cells -/
def barHalves (width : Nat) (total completed : Int) : Int :=
  let c := min total (max 0 completed)
  if total = 0 then 2 * width else truncDiv (width * 2 * c) total

/-- the characters a (not pulsing) bar of `width` cells draws on a colour console:
`━`·bar_count, `╸` if a half is left, then the background `╺━…` / `━…` -/
def barText (width : Nat) (total completed : Int) : List Char :=
  let h := (barHalves width total completed).toNat
  let bc := h / 2
  let hb := h % 2
  let rem := width - bc - hb
  List.replicate bc '━' ++ List.replicate hb '╸' ++
    (if rem = 0 then [] else if hb = 0 ∧ bc ≠ 0 then '╺' :: List.replicate (rem - 1) '━' else List.replicate rem '━')

/-- `TransferSpeedColumn.render` text: `"?"` without a speed, else `decimal(int(speed)) + "/s"`;
`speed = n/d` amount-units per tick, amounts in units of `1/A` -/
def transferSpeedText (cfg : Cfg) (A : Int) (t : Task) : List Char :=
  match t.speed with
  | none => ['?']
  | some (n, d) => decimal (truncDiv (n * cfg.tps) (d * A)) ++ "/s".toList

end RichModel.ProgressFmt
