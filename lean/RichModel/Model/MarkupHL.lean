import RichModel.Model.Markup
/-!
# Console glue with a highlighter (rich/console.py `render_str`, `_collect_renderables`; rich/highlighter.py)

`Highlighter.__call__(str)` builds `Text(text)` (which strips BS/VT/FF/CR once more), lets
`highlight` append spans to it (`Text.highlight_regex` → `Text.stylize` → `_spans.append`), and
`render_str` then does `highlight_text.copy_styles(rich_text)`, i.e. `_spans.extend(rich_text._spans)`.
A highlighter is therefore a *span source*: a function from the plain text to the spans it adds, and
the spans of the markup come AFTER the highlighter's in the span list — which is the order
`Text.render` applies them, later winning: markup beats highlighting.
-/
namespace RichModel.Markup

/-- a highlighter as a span source: plain text ↦ the spans `highlight` appends, in order -/
abbrev Highlighter := List Char → List Span

/-- `NullHighlighter` / `_null_highlighter` -/
def nullHighlighter : Highlighter := fun _ => []

structure ConsoleH where
  /-- `Console(emoji=…)` -/
  emoji : Bool
  /-- `Console(markup=…)` -/
  markup : Bool
  /-- `Console(highlight=…)` -/
  highlight : Bool
  /-- `Console(highlighter=…)` (default `ReprHighlighter()`) -/
  highlighter : Highlighter

def ConsoleH.flags (con : ConsoleH) : ConsoleFlags := { emoji := con.emoji, markup := con.markup }

/-- `Console.render_str(text, emoji=…, markup=…, highlight=…, highlighter=…)`: (plain, spans) of the
`Text` returned.  `(highlighter or self.highlighter) if highlight_enabled else None`: a `Highlighter`
instance is always truthy, so an argument wins whenever it is given. -/
def renderStrH (cfg : Cfg) (con : ConsoleH) (emoji markup highlight : Option Bool)
    (hl : Option Highlighter) (text : List Char) : Except MErr Rendered :=
  match renderStr cfg con.flags emoji markup text with
  | .error e => .error e
  | .ok (plain, spans) =>
    if triFlag highlight con.highlight then
      let h := hl.getD con.highlighter
      -- `_highlighter(str(rich_text))` = `Text(plain)` + `highlight`; then `copy_styles(rich_text)`
      let plain' := stripControl plain
      .ok (plain', h plain' ++ spans)
    else .ok (plain, spans)

/-- `Console.print(*strings, sep=…, emoji=…, markup=…, highlight=…)` up to the `Text` handed to the
renderer.  `_collect_renderables` resolves `highlight` to a highlighter (`self.highlighter` or the
null highlighter) and passes THAT to `render_str` — but not the `highlight` flag, which `render_str`
therefore resolves from the console default alone. -/
def printStrsH (cfg : Cfg) (con : ConsoleH) (emoji markup highlight : Option Bool) (sep : List Char)
    (objs : List (List Char)) : Except MErr Rendered :=
  let hl : Highlighter := if triFlag highlight con.highlight then con.highlighter else nullHighlighter
  match objs.mapM (renderStrH cfg con emoji markup none (some hl)) with
  | .ok ts => .ok (joinRendered sep 0 true ts)
  | .error e => .error e

end RichModel.Markup
