import RichModel.Model.Term
import RichModel.Model.Live
/-
Concurrency model for property C11: several threads printing / logging / capturing / refreshing a live
display on ONE console (rich/console.py, rich/live.py, rich/live_render.py, rich/progress.py as they are
after the `fix:` commits listed in known_findings.txt).  Import-free apart from Model/Term + Model/Live.

A labelled transition system.  Every thread runs a program (a list of `Op`s).  An operation is compiled
(`code`) into the *static* list of guarded atomic actions (`GAct`) its Python code performs; one step of the
system = one thread performs its next action.  An action is "the statement sequence between two yield
points": it touches shared state at most once (a lock operation, one read or write of `_live_render._shape`,
of `_render_hooks`, of the record buffer, one `file.write`).  Statements that touch only thread-local state
(`ConsoleThreadLocals`: buffer, buffer_index, capture_starts) are actions of their own too, so every
interleaving at statement granularity is an interleaving of the model.

Code read (line numbers of /repo at the time of writing):
* console.py 581-588 `_enter_buffer/_exit_buffer`, 612-628 `begin_capture/end_capture` (capture_starts stack),
  804-814 `line`, 1131-1139 `control`, 1173-1257 `print` (`with self:` … hooks … render … `_buffer.extend`),
  1288-1371 `log` (same skeleton), 1373-1400 `_check_buffer` (`with self._lock:` → `if _buffer_index == 0:`
  → record under `_record_buffer_lock` → `_render_buffer` → one `file.write`), thread-local buffer 351-358.
* live.py 137-150 `start`, 152-187 `stop`, 216-226 `update`, 228-254 `refresh`
  (`with self._lock, self.console: self.console.print(Control(""))`), 265-283 `process_renderables`
  (`position_cursor()` under the live lock), 47-87 `_LiveRender.__rich_console__` (render + `_shape = …`
  under the live lock).
* live_render.py 31-51 `position_cursor/restore_cursor`, 53-75 `LiveRender.__rich_console__` (Progress: running
  maximum of the shape, *not* under any lock when reached from a user print).
* progress.py 653-670 `start`, 672-697 `stop`, 879-902 `advance`, 904-929 `refresh`, 1022-1032
  `process_renderables` (no lock).

Locks: `live` = `Live._lock` / `Progress._lock`, `console` = `Console._lock`,
`record` = `Console._record_buffer_lock`; all three are re-entrant.

Redirected `sys.stdout` / `sys.stderr` (round 4): `Op.proxyPrint lines` is a `FileProxy.write` that completes lines (file_proxy.py:28-47,
`with console: console.print(lines)`); which lines a `write()` hands over (the first one carries what was pending in the proxy) is a
parameter, observed on real rich.  Not modelled (stated in the MANIFEST): the assembly of those lines from the text pending in the
FileProxy objects, and the flush of pending text by `stop()` (`flushProxies` prints nothing: the harness completes every partial line first),
Jupyter, the auto-refresh thread (it is one more thread whose program is `refresh`), styles (what a print
renders to is a parameter: its lines), preemption inside one source line.

There is no variant flag for finding F22 (stale erase count when the frame height changes between
`process_renderables` and the write): no small repair exists; Props/C11.lean carries the `_partial` screen
theorem and the machine-checked witness schedule instead.
-/
namespace RichModel.Conc
open RichModel RichModel.Live

inductive Lock where
  | live | console | record
deriving Repr, DecidableEq

/-- The order in which the code nests its locks: live < console < record. -/
def Lock.rank : Lock → Nat
  | .live => 0
  | .console => 1
  | .record => 2

/-- Which display is attached to the console. -/
inductive DKind where
  | none | live | progress
deriving Repr, DecidableEq

structure Cfg where
  kind : DKind
  width : Nat
  height : Nat
  /-- `Console(record=True)` -/
  record : Bool
  transient : Bool
  /-- CODE VARIANT FLAG.  `true` = the `Progress.stop` of rich 9.10.0 as found, which /repo still has (recorded known finding
  `progress-stop-tail-vs-start`, no small safe repair; the harness constant `STOP_TAIL_UNLOCKED` stays 1): the transient erase (`restore_cursor`) and
  `_live_render._shape = None` run after the progress lock is released, so another thread's `start()` can slip in
  between.  `false` = the proposed repair (pending_fixes/C11-progress-stop-tail-outside-lock.diff, not applied): both happen before the
  lock is released (as in `Live.stop`). -/
  stopTailUnlocked : Bool := true
deriving Repr, DecidableEq

/-- Characters are one terminal cell wide in this model (`Model/Live` is parametric in the cell width). -/
def cw1 : Char → Nat := fun _ => 1

/-- What a buffered piece of output is. -/
inductive Body where
  /-- `position_cursor()` computed from the shape that was read -/
  | pos (shape : Option (Nat × Nat))
  /-- what the user's objects rendered to -/
  | user (lines : List Line)
  /-- the live display as rendered -/
  | frame (f : Frame)
  /-- `Console.control(...)` / `Console.line()` / `Control("")`: raw terminal operations; `control` = it is a control segment -/
  | ctl (ops : List TermOp) (control : Bool)
deriving Repr, DecidableEq

def Body.ops : Body → List TermOp
  | .pos s => positionCursor s
  | .user ls => emitLines ls
  | .frame f => emitFrame f
  | .ctl o _ => o

/-- A buffered piece of output with its origin: thread, index of the operation in the thread's program,
and the number of pieces that thread had produced before (`seq`, unique per thread). -/
structure Item where
  tid : Nat
  op : Nat
  seq : Nat
  body : Body
deriving Repr, DecidableEq

/-- One `file.write` call. -/
structure Write where
  tid : Nat
  op : Nat
  items : List Item
deriving Repr, DecidableEq

def itemsOps (l : List Item) : List TermOp := l.flatMap (·.body.ops)

inductive Op where
  /-- `console.print(...)` / `console.log(...)` with at least one object that renders to `lines` -/
  | print (lines : List Line)
  /-- `with console.capture(): print(l1); print(l2); …` -/
  | capture (bodies : List (List Line))
  /-- `with console.capture(): print(a); with console.capture(): print(b); print(c)` — the inner block starts with a non-empty buffer -/
  | nested (a b c : List Line)
  /-- `Live.update(renderable, refresh=…)` -/
  | update (f : Frame) (refresh : Bool)
  | refresh
  | start
  | stop
  /-- `Progress.advance(id, n)` -/
  | advance (id n : Nat)
  /-- `console.export_text(clear=…)` / `export_html(clear=…)`: read the record, optionally empty it, under the record lock -/
  | export (clear : Bool)
  /-- `sys.stdout.write(text)` / `sys.stderr.write(text)` through the `FileProxy` a running display installs, for a `text` that
  completes at least one line (file_proxy.py:28-47): `with console: console.print(Text("\n").join(lines), …)` — a print inside one more
  buffering level; `lines` = the completed lines (the first one prefixed by what was pending in the proxy, see `Model/ConcProxy`).
  A `write` that completes no line touches no console state at all (it is no operation of this model). -/
  | proxyPrint (lines : List Line)
deriving Repr, DecidableEq

inductive Act where
  | acq (l : Lock)
  | rel (l : Lock)
  /-- `_buffer_index += 1` -/
  | enter
  /-- `_buffer_index -= 1` -/
  | exitDec
  /-- `for hook in self._render_hooks:` — is a hook installed right now? -/
  | readHooks
  /-- `self._live_render.position_cursor()` — reads `_shape` -/
  | hookPos
  | pushUser (lines : List Line)
  | pushCtl (ops : List TermOp) (control : Bool)
  /-- `(_)LiveRender.__rich_console__`, first half: `console.render_lines(self.renderable, …)` reads the renderable -/
  | readRenderable
  /-- second half: computes the shape of what was rendered, writes `_shape`, yields the frame -/
  | renderFrame
  /-- `self._record_buffer.extend(self._buffer[:])` -/
  | recAppend
  /-- `text = self._render_buffer(self._buffer[:]); del self._buffer[:]; if text: self.file.write(text)` -/
  | write
  | setRenderable (f : Frame)
  /-- `begin_capture`: `_enter_buffer(); capture_starts.append(len(_buffer))` -/
  | capBegin
  /-- `end_capture` up to `_exit_buffer`: render and remove `_buffer[start:]` -/
  | capEnd
  | pushHook
  | popHook
  | setStarted (b : Bool)
  /-- `if self._started: return` (want = false) / `if not self._started: return` (want = true) -/
  | guardStarted (want : Bool)
  /-- `vertical_overflow = self.vertical_overflow; self.vertical_overflow = "visible"` -/
  | saveOverflow
  /-- `self.console.control(self._live_render.restore_cursor())` up to `_check_buffer` -/
  | restorePush
  /-- `self._live_render._shape = None` (and, for a Live, `self.vertical_overflow = vertical_overflow`) -/
  | resetShape
  /-- `self._live_render.set_renderable(self.get_renderable())` (Progress) -/
  | tableRender
  | advance (id n : Nat)
  /-- `for stream in (sys.stdout, sys.stderr): if isinstance(stream, FileProxy): stream.flush()` in `stop()`
  (live.py:162-165, progress.py:681-684): the proxies hold no pending text in this model, so nothing is printed -/
  | flushProxies
  /-- the loop of `export_text` / `export_html` over `self._record_buffer` (console.py:1482-1494, 1548-1587) -/
  | exportRead
  /-- `if clear: del self._record_buffer[:]` and the end of the `with self._record_buffer_lock:` body -/
  | exportEnd (clear : Bool)
deriving Repr, DecidableEq

/-- When an action of the static code is executed at all. -/
inductive Guard where
  | always
  /-- only when this print found a hook installed -/
  | hooked
  /-- `if self._buffer_index == 0` -/
  | top
  /-- `… and self.record` -/
  | topRecord
deriving Repr, DecidableEq

structure GAct where
  g : Guard
  a : Act
deriving Repr, DecidableEq

def ga (a : Act) : GAct := ⟨.always, a⟩
def gh (a : Act) : GAct := ⟨.hooked, a⟩

/-- `_check_buffer` (console.py:1373-1400). -/
def flushCode : List GAct :=
  [ga (.acq .console), ⟨.topRecord, .acq .record⟩, ⟨.topRecord, .recAppend⟩, ⟨.topRecord, .rel .record⟩,
   ⟨.top, .write⟩, ga (.rel .console)]

/-- `process_renderables`: a Live takes its lock around `position_cursor()`, a Progress does not. -/
def hookCode : DKind → List GAct
  | .live => [gh (.acq .live), gh .hookPos, gh (.rel .live)]
  | _ => [gh .hookPos]

/-- Rendering `self._live_render`: `_LiveRender` holds the live lock, `LiveRender` (Progress) holds nothing. -/
def frameCode : DKind → List GAct
  | .live => [gh (.acq .live), gh .readRenderable, gh .renderFrame, gh (.rel .live)]
  | _ => [gh .readRenderable, gh .renderFrame]

/-- `print` / `log`: `with self:` collect, hooks, render, extend the buffer, `_exit_buffer`. -/
def printBody (k : DKind) (push : Act) : List GAct :=
  [ga .enter, ga .readHooks] ++ hookCode k ++ [ga push] ++ frameCode k ++ [ga .exitDec] ++ flushCode

/-- `refresh()` on a terminal. -/
def refreshCode : DKind → List GAct
  | .live => [ga (.acq .live), ga .enter] ++ printBody .live (.pushCtl [] true) ++ [ga .exitDec] ++ flushCode ++ [ga (.rel .live)]
  | .progress => [ga (.acq .live), ga .tableRender, ga .enter] ++ printBody .progress (.pushCtl [] true) ++ [ga .exitDec] ++ flushCode ++ [ga (.rel .live)]
  | .none => []

/-- `control(codes)` / `line()`: append one segment, `_check_buffer`. -/
def ctlCode (ops : List TermOp) (control : Bool) : List GAct := ga (.pushCtl ops control) :: flushCode

def captureCode (k : DKind) (bodies : List (List Line)) : List GAct :=
  [ga .capBegin] ++ bodies.flatMap (fun ls => printBody k (.pushUser ls)) ++ [ga .capEnd, ga .exitDec] ++ flushCode

def nestedCode (k : DKind) (a b c : List Line) : List GAct :=
  [ga .capBegin] ++ printBody k (.pushUser a) ++ [ga .capBegin] ++ printBody k (.pushUser b) ++ [ga .capEnd, ga .exitDec] ++ flushCode
    ++ printBody k (.pushUser c) ++ [ga .capEnd, ga .exitDec] ++ flushCode

def startCode (cfg : Cfg) : List GAct :=
  match cfg.kind with
  | .live => [ga (.acq .live), ga (.guardStarted false)] ++ ctlCode [.hideCursor] true ++ [ga .pushHook, ga (.setStarted true), ga (.rel .live)]
  | .progress => [ga (.acq .live), ga (.guardStarted false), ga (.setStarted true)] ++ ctlCode [.hideCursor] true ++ [ga .pushHook]
      ++ refreshCode .progress ++ [ga (.rel .live)]
  | .none => []

def stopCode (cfg : Cfg) : List GAct :=
  match cfg.kind with
  | .live => [ga (.acq .live), ga (.guardStarted true), ga (.setStarted false), ga .flushProxies, ga .saveOverflow] ++ refreshCode .live
      ++ ctlCode [.lf] false ++ [ga .popHook] ++ ctlCode [.showCursor] true
      ++ (if cfg.transient then ga .restorePush :: flushCode else []) ++ [ga .resetShape, ga (.rel .live)]
  | .progress => [ga (.acq .live), ga (.guardStarted true), ga (.setStarted false), ga .flushProxies] ++ refreshCode .progress
      ++ ctlCode [.lf] false ++ ctlCode [.showCursor] true ++ [ga .popHook]
      ++ (if cfg.stopTailUnlocked then
            [ga (.rel .live)] ++ (if cfg.transient then ga .restorePush :: flushCode else []) ++ [ga .resetShape]
          else (if cfg.transient then ga .restorePush :: flushCode else []) ++ [ga .resetShape, ga (.rel .live)])
  | .none => []

/-- The static code of an operation (`[]`: the operation does not exist for this kind of display). -/
def code (cfg : Cfg) : Op → List GAct
  | .print ls => printBody cfg.kind (.pushUser ls)
  | .capture bodies => captureCode cfg.kind bodies
  | .nested a b c => nestedCode cfg.kind a b c
  | .update f r =>
    match cfg.kind with
    | .live => [ga (.acq .live), ga (.setRenderable f)] ++ (if r then refreshCode .live else []) ++ [ga (.rel .live)]
    | _ => []
  | .refresh => refreshCode cfg.kind
  | .start => startCode cfg
  | .stop => stopCode cfg
  | .advance id n =>
    match cfg.kind with
    | .progress => [ga (.acq .live), ga (.advance id n), ga (.rel .live)]
    | _ => []
  | .export clear => [ga (.acq .record), ga .exportRead, ga (.exportEnd clear), ga (.rel .record)]
  | .proxyPrint ls => [ga .enter] ++ printBody cfg.kind (.pushUser ls) ++ [ga .exitDec] ++ flushCode

def Op.applies (k : DKind) : Op → Bool
  | .print _ | .capture _ | .nested _ _ _ | .export _ | .proxyPrint _ => true
  | .update _ _ => k == .live
  | .refresh | .start | .stop => k != .none
  | .advance _ _ => k == .progress

/-- Thread-local state (`ConsoleThreadLocals` + the control state of the running operation). -/
structure Local where
  prog : List Op := []
  /-- number of operations started so far (the running one has index `nops - 1`) -/
  nops : Nat := 0
  cont : List GAct := []
  /-- `_buffer_index` -/
  depth : Nat := 0
  buffer : List Item := []
  /-- `capture_starts` -/
  marks : List Nat := []
  /-- did the running print find a hook? -/
  hooked : Bool := false
  /-- the renderable as read by the running render of the live display -/
  rcopy : Frame := []
  /-- locks held, one entry per (re-entrant) acquisition -/
  held : List Lock := []
  /-- between `recAppend` and `write` -/
  recDone : Bool := false
  /-- something was buffered since the last write (over-approximation of `buffer ≠ []`) -/
  dirty : Bool := false
  /-- results of the capture blocks, oldest first -/
  captured : List (List Item) := []
  /-- the record as read by the running export -/
  xcopy : List Item := []
  /-- between `exportRead` and `exportEnd` -/
  xread : Bool := false
  /-- what the export calls of this thread returned (the recorded pieces), oldest first -/
  results : List (List Item) := []
  /-- ghost: every piece of output this thread produced, in order -/
  emitted : List Item := []
  /-- an action Python would have answered with an exception (releasing a lock that is not held, …) -/
  fault : Bool := false
  /-- an operation was left by a Python exception the caller sees (`KeyError` for an unknown task id) -/
  raised : Bool := false
deriving Repr

structure Shared where
  owner : Lock → Option Nat := fun _ => none
  file : List Write := []
  record : List Item := []
  /-- ghost: what every *clearing* export returned, in the order of their critical sections (thread, pieces) -/
  exports : List (Nat × List Item) := []
  /-- `_live_render._shape` -/
  shape : Option (Nat × Nat) := none
  renderable : Frame := []
  overflow : Overflow := .ellipsis
  overflow0 : Overflow := .ellipsis
  /-- `len(console._render_hooks)` -/
  hooks : Nat := 0
  started : Bool := false
  tasks : List Task := []

structure State where
  sh : Shared := {}
  th : Nat → Local := fun _ => {}

def upd {α : Type} (f : Nat → α) (t : Nat) (v : α) : Nat → α := fun u => if u = t then v else f u

def updLock (f : Lock → Option Nat) (l : Lock) (v : Option Nat) : Lock → Option Nat := fun k => if k = l then v else f k

def guardOn (cfg : Cfg) (depth : Nat) (hooked : Bool) : Guard → Bool
  | .always => true
  | .hooked => hooked
  | .top => depth == 0
  | .topRecord => depth == 0 && cfg.record

def Local.push (l : Local) (t : Nat) (b : Body) : Local :=
  let x : Item := { tid := t, op := l.nops - 1, seq := l.emitted.length, body := b }
  { l with buffer := l.buffer ++ [x], emitted := l.emitted ++ [x], dirty := true }

/-- A write is issued only when the rendered text is not empty (`if text:`). -/
def nonEmpty (x : Item) : Bool := !x.body.ops.isEmpty

/-- One action of thread `t` (`l` already has the action removed from `cont`).  `none` = blocked. -/
def exec (cfg : Cfg) (t : Nat) (sh : Shared) (l : Local) : Act → Option (Shared × Local)
  | .acq lk =>
    match sh.owner lk with
    | none => some ({ sh with owner := updLock sh.owner lk (some t) }, { l with held := lk :: l.held })
    | some u => if u = t then some ({ sh with owner := updLock sh.owner lk (some t) }, { l with held := lk :: l.held }) else none
  | .rel lk =>
    if lk ∈ l.held then
      let held := l.held.erase lk
      some ({ sh with owner := if lk ∈ held then sh.owner else updLock sh.owner lk none }, { l with held := held })
    else some (sh, { l with fault := true })
  | .enter => some (sh, { l with depth := l.depth + 1 })
  | .exitDec => if l.depth = 0 then some (sh, { l with fault := true }) else some (sh, { l with depth := l.depth - 1 })
  | .readHooks => some (sh, { l with hooked := decide (0 < sh.hooks) })
  | .hookPos => some (sh, l.push t (.pos sh.shape))
  | .pushUser ls => some (sh, l.push t (.user ls))
  | .pushCtl o c => some (sh, l.push t (.ctl o c))
  | .readRenderable => some (sh, { l with rcopy := sh.renderable })
  | .renderFrame =>
    match cfg.kind with
    | .progress =>
      let r := progressFrame cw1 cfg.width sh.shape l.rcopy
      some ({ sh with shape := some r.2 }, l.push t (.frame r.1))
    | _ =>
      let f := liveFrame cw1 cfg.width cfg.height sh.overflow l.rcopy
      some ({ sh with shape := some (getShape cw1 f) }, l.push t (.frame f))
  | .recAppend => some ({ sh with record := sh.record ++ l.buffer }, { l with recDone := true })
  | .write =>
    some ({ sh with file := if l.buffer.any nonEmpty then sh.file ++ [{ tid := t, op := l.nops - 1, items := l.buffer }] else sh.file },
          { l with buffer := [], recDone := false, dirty := false })
  | .setRenderable f => some ({ sh with renderable := f }, l)
  | .capBegin => some (sh, { l with depth := l.depth + 1, marks := l.buffer.length :: l.marks })
  | .capEnd =>
    let start := l.marks.headD 0
    some (sh, { l with captured := l.captured ++ [l.buffer.drop start], buffer := l.buffer.take start, marks := l.marks.tail })
  | .pushHook => some ({ sh with hooks := sh.hooks + 1 }, l)
  | .popHook => some ({ sh with hooks := sh.hooks - 1 }, l)
  | .setStarted b => some ({ sh with started := b }, l)
  | .guardStarted want =>
    if sh.started = want then some (sh, l) else some (sh, { l with cont := [ga (.rel .live)] })
  | .saveOverflow => some ({ sh with overflow0 := sh.overflow, overflow := .visible }, l)
  | .restorePush => some (sh, l.push t (.ctl (restoreCursor true sh.shape) true))
  | .resetShape =>
    some ({ sh with shape := none, overflow := if cfg.kind = .live then sh.overflow0 else sh.overflow }, l)
  | .tableRender => some ({ sh with renderable := tasksTable cw1 sh.tasks }, l)
  | .advance id n =>
    match findTask sh.tasks id with
    | some tk => some ({ sh with tasks := replaceTask sh.tasks { tk with completed := tk.completed + n } }, l)
    | none => some (sh, { l with cont := [ga (.rel .live)], raised := true })   -- KeyError leaves the `with self._lock:` block
  | .flushProxies => some (sh, l)
  | .exportRead => some (sh, { l with xcopy := sh.record, xread := true })
  | .exportEnd clear =>
    some ({ sh with record := if clear then [] else sh.record,
                    exports := if clear then sh.exports ++ [(t, l.xcopy)] else sh.exports },
          { l with results := l.results ++ [l.xcopy], xread := false })

/-- One step of thread `t`: load the next operation, skip an action whose guard is off, or perform the
action.  `none`: the thread is finished or blocked on a lock. -/
def stepT (cfg : Cfg) (s : State) (t : Nat) : Option State :=
  let l := s.th t
  match l.cont with
  | [] =>
    match l.prog with
    | [] => none
    | op :: rest => some { s with th := upd s.th t { l with prog := rest, cont := code cfg op, nops := l.nops + 1 } }
  | g :: rest =>
    let l1 := { l with cont := rest }
    if guardOn cfg l.depth l.hooked g.g then
      (exec cfg t s.sh l1 g.a).map (fun r => { sh := r.1, th := upd s.th t r.2 })
    else some { s with th := upd s.th t l1 }

def Local.done (l : Local) : Bool := l.cont.isEmpty && l.prog.isEmpty

/-- A schedule is a list of thread ids; choosing a finished or blocked thread changes nothing. -/
def run (cfg : Cfg) (s : State) (sched : List Nat) : State :=
  sched.foldl (fun s t => (stepT cfg s t).getD s) s

/-- Threads `0 … progs.length-1` with their programs, nothing written yet. -/
def initState (sh : Shared) (progs : List (List Op)) : State :=
  { sh := sh, th := fun t => { prog := progs.getD t [] } }

/-- Everything written to the file, as terminal operations in file order. -/
def fileOps (s : State) : List TermOp := s.sh.file.flatMap (fun w => itemsOps w.items)

/-- What thread `t` wrote, flattened. -/
def written (s : State) (t : Nat) : List Item := (s.sh.file.filter (·.tid == t)).flatMap (·.items)

/-- `export_text()`: the text of the recorded non-control pieces. -/
def isControl (k : DKind) : Body → Bool
  | .pos _ => true
  | .user _ => false
  | .frame _ => k == .progress
  | .ctl _ c => c

end RichModel.Conc
