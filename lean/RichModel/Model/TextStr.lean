import RichModel.Model.Text
/-!
String-level reading of `Text.split` (deepening round 4): what `split` does to *any* list `v` whose characters are
`chars` — an ordinary string (`v = chars`) or a styled string (`v = view t`, `chars = plain`).  Executable, so that the
driver can answer it and the harness can compare it with `str.split` / `re.split` of the running Python.
-/
namespace RichModel
namespace Text

/-- `[v[start:o1], v[o1:o2], …, v[ok:]]` -/
def cutAt {α : Type} (start : Nat) : List Nat → List α → List (List α)
  | [], l => [l.drop start]
  | o :: os, l => (l.drop start).take (o - start) :: cutAt o os l

/-- the stretches of `v` before, between and after the matches -/
def cutBetween {α : Type} (start : Nat) : List (Nat × Nat) → List α → List (List α)
  | [], l => [l.drop start]
  | m :: rest, l => (l.drop start).take (m.1 - start) :: cutBetween m.2 rest l

/-- `lines.pop()` when the last piece is blank and blanks are not wanted -/
def popBlank {α : Type} (allowBlank : Bool) (ps : List (List α)) : List (List α) :=
  if !allowBlank && (match ps.getLast? with | some p => p.isEmpty | none => false) then ps.dropLast else ps

/-- `split(sep, include_separator, allow_blank)` on the string `chars`, applied to `v` (same length, `chars` its
characters): no occurrence → `[v]`; else cut after every leftmost non-overlapping occurrence, or take what lies between
the occurrences; a blank last piece is dropped unless `allow_blank`. -/
def strSplit {α : Type} (sep : List Char) (incl blank : Bool) (chars : List Char) (v : List α) : List (List α) :=
  let ms := findAll sep chars
  if ms.isEmpty then [v]
  else popBlank blank (if incl then cutAt 0 (ms.map (·.2)) v else cutBetween 0 ms v)

/-- the number of characters `rstrip_end(size)` removes (repaired code: the text's **cell** width is compared with
`size`): as many trailing whitespace characters as there are, at most the excess over `size` -/
def rstripEndAmount (cw : Char → Nat) (s : List Char) (size : Int) : Nat :=
  if (cellLen cw s : Int) > size then min (trailingSpaceCount s) ((cellLen cw s : Int) - size).toNat else 0

/-- the line `fit` makes of one piece: cut or pad with base-styled spaces to exactly `w` characters -/
def fitLine {σ : Type} (w : Nat) (b : σ) (p : List (Char × List σ)) : List (Char × List σ) :=
  p.take w ++ List.replicate (w - p.length) (' ', [b])

/-- the even space-indentations of the lines of a string (what `detect_indentation` looks at) -/
def evenIndents (s : List Char) : List Nat :=
  ((splitNL s []).map leadingSpaces).filter (fun n => n % 2 == 0)

end Text
end RichModel
