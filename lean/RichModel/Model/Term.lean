/-
Terminal model (VT100 subset) shared by C10 / C11 / C15 / C03.  Import-free.

Specification (the same text as the docstring of `harness/term.py`, which implements it
independently in Python and is the oracle on the implementation side):

* `text s`      printable characters written at the cursor, one cell each, no auto-wrap
* `lf`          cursor to column 0 of the next row (tty ONLCR); a new blank row is created when needed,
                and on a screen of height `H` the window scrolls
* `cr`          cursor to column 0
* `cuu n`       cursor up `n` rows (`0` counts as `1`), never above the first *visible* row: only the
                last `H` rows ever reached are on screen
* `el2`         erase the whole current row, the cursor does not move
* `showCursor` / `hideCursor`   DECTCEM
* `sgr`, `osc8` rendition / hyperlink: no effect on where characters land

`Screen.rows` is the whole history of rows, scroll-back included, row 0 first.
-/
namespace RichModel

inductive TermOp where
  | text (s : List Char)
  | lf
  | cr
  | cuu (n : Nat)
  | el2
  | showCursor
  | hideCursor
  | sgr (ps : List Nat)
  | osc8 (uri : List Char)
deriving Repr, DecidableEq

structure Screen where
  rows : List (List Char)
  row : Nat
  col : Nat
  visible : Bool
deriving Repr, DecidableEq

namespace Screen

/-- A fresh terminal: one blank row, cursor at its start, cursor visible. -/
def init : Screen := { rows := [[]], row := 0, col := 0, visible := true }

/-- Overwrite the cells `col, col+1, …` of a row with `s` (blank cells are spaces). -/
def writeAt (col : Nat) (s : List Char) (r : List Char) : List Char :=
  (r ++ List.replicate (col - r.length) ' ').take col ++ s ++ r.drop (col + s.length)

/-- Index of the first row that is still on a screen of height `H`. -/
def top (H : Nat) (s : Screen) : Nat := s.rows.length - H

def step (H : Nat) (s : Screen) : TermOp → Screen
  | .text t =>
    { s with rows := s.rows.set s.row (writeAt s.col t (s.rows.getD s.row [])), col := s.col + t.length }
  | .lf =>
    { s with rows := if s.row + 1 < s.rows.length then s.rows else s.rows ++ [[]], row := s.row + 1, col := 0 }
  | .cr => { s with col := 0 }
  | .cuu n => { s with row := max (s.top H) (s.row - (if n = 0 then 1 else n)) }
  | .el2 => { s with rows := s.rows.set s.row [] }
  | .showCursor => { s with visible := true }
  | .hideCursor => { s with visible := false }
  | .sgr _ => s
  | .osc8 _ => s

/-- Replay a sequence of terminal operations on a screen of height `H`. -/
def replay (H : Nat) (s : Screen) (ops : List TermOp) : Screen := ops.foldl (step H) s

/-- Rows visited by the cursor while replaying (the row after every operation). -/
def rowTrace (H : Nat) (s : Screen) : List TermOp → List Nat
  | [] => []
  | op :: rest => (step H s op).row :: rowTrace H (step H s op) rest

end Screen
end RichModel
