-- Root of the library.  Nothing depends on this file: checks build `RichModel.Props.Cxx` and `drv_cxx` directly.
import RichModel.Model.Cells
import RichModel.Model.Segment
