import RichModel.Drv.Main
import RichModel.Drv.C15
def main : IO Unit := RichModel.Drv.runLoop RichModel.Drv.C15.handlers
