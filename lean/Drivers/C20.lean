import RichModel.Drv.Main
import RichModel.Drv.C20
def main : IO Unit := RichModel.Drv.runLoop RichModel.Drv.C20.handlers
