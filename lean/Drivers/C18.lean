import RichModel.Drv.Main
import RichModel.Drv.C18
def main : IO Unit := RichModel.Drv.runLoop RichModel.Drv.C18.handlers
