import RichModel.Drv.Main
import RichModel.Drv.C16
def main : IO Unit := RichModel.Drv.runLoop RichModel.Drv.C16.handlers
