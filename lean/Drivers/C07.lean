import RichModel.Drv.Main
import RichModel.Drv.C07
def main : IO Unit := RichModel.Drv.runLoop RichModel.Drv.C07.handlers
