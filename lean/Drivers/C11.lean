import RichModel.Drv.Main
import RichModel.Drv.C11
def main : IO Unit := RichModel.Drv.runLoop RichModel.Drv.C11.handlers
