import RichModel.Drv.Main
import RichModel.Drv.C10
def main : IO Unit := RichModel.Drv.runLoop RichModel.Drv.C10.handlers
