import RichModel.Drv.Main
import RichModel.Drv.C19
def main : IO Unit := RichModel.Drv.runLoop RichModel.Drv.C19.handlers
