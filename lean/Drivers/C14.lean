import RichModel.Drv.Main
import RichModel.Drv.C14
def main : IO Unit := RichModel.Drv.runLoop RichModel.Drv.C14.handlers
