import RichModel.Drv.Main
import RichModel.Drv.C13
def main : IO Unit := RichModel.Drv.runLoop RichModel.Drv.C13.handlers
