import RichModel.Drv.Main
import RichModel.Drv.C05
def main : IO Unit := RichModel.Drv.runLoop RichModel.Drv.C05.handlers
