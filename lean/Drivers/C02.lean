import RichModel.Drv.Main
import RichModel.Drv.C02
def main : IO Unit := RichModel.Drv.runLoop RichModel.Drv.C02.handlers
