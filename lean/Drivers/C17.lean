import RichModel.Drv.Main
import RichModel.Drv.C17
def main : IO Unit := RichModel.Drv.runLoop RichModel.Drv.C17.handlers
