import RichModel.Drv.Main
import RichModel.Drv.C01
def main : IO Unit := RichModel.Drv.runLoop RichModel.Drv.C01.handlers
