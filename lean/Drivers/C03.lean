import RichModel.Drv.Main
import RichModel.Drv.C03
def main : IO Unit := RichModel.Drv.runLoop RichModel.Drv.C03.handlers
