import RichModel.Drv.Main
import RichModel.Drv.C09
def main : IO Unit := RichModel.Drv.runLoop RichModel.Drv.C09.handlers
