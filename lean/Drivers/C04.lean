import RichModel.Drv.Main
import RichModel.Drv.C04
def main : IO Unit := RichModel.Drv.runLoop RichModel.Drv.C04.handlers
