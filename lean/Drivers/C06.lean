import RichModel.Drv.Main
import RichModel.Drv.C06
def main : IO Unit := RichModel.Drv.runLoop RichModel.Drv.C06.handlers
