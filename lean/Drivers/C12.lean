import RichModel.Drv.Main
import RichModel.Drv.C12
def main : IO Unit := RichModel.Drv.runLoop RichModel.Drv.C12.handlers
