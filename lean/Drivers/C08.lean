import RichModel.Drv.Main
import RichModel.Drv.C08
def main : IO Unit := RichModel.Drv.runLoop RichModel.Drv.C08.handlers
